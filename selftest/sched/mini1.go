//go:build verif

package sftp

import "sync"


func vh_ST_mini() {
	resp := make(chan int, 2)
	fini := make(chan struct{})
	var wg sync.WaitGroup
	got := 0
	wg.Add(1)
	go func() { // controller
		for {
			select {
			case <-resp:
				got++
			case <-fini:
				return
			}
		}
	}()
	go func() { // worker
		resp <- 1
		wg.Done()
	}()
	go func() { // dispatcher
		wg.Wait()
		close(fini)
	}()
	vQuiesce()
	vEmit("got", got)
}
