//go:build verif

package sftp

import "sync"

// mutex-protected counter with observation order
func vh_ST_mutex() {
	var mu sync.Mutex
	x := 0
	var wg sync.WaitGroup
	wg.Add(2)
	go func() { defer wg.Done(); mu.Lock(); x = x*2 + 1; mu.Unlock() }()
	go func() { defer wg.Done(); mu.Lock(); x = x*2 + 2; mu.Unlock() }()
	wg.Wait()
	vEmit("x", x)
}

// unbuffered rendezvous with two senders and select/default observer
func vh_ST_rendezvous() {
	ch := make(chan int)
	done := make(chan struct{})
	sum := 0
	seen := 0
	go func() { ch <- 1 }()
	go func() { ch <- 2 }()
	go func() {
		a := <-ch
		select {
		case b := <-ch:
			sum = a*10 + b
		default:
			seen = a
			sum = a*10 + <-ch
		}
		close(done)
	}()
	<-done
	vEmit("sum", sum)
	vEmit("seen", seen)
}

// close as broadcast, cancel pattern of the client
func vh_ST_cancel() {
	cancel := make(chan struct{})
	work := make(chan int)
	res := make(chan int, 4)
	var wg sync.WaitGroup
	wg.Add(1)
	go func() {
		defer wg.Done()
		for i := 0; i < 3; i++ {
			select {
			case work <- i:
			case <-cancel:
				return
			}
		}
		close(work)
	}()
	n := 0
	for v := range work {
		n += v + 1
		if v == 1 {
			close(cancel)
			break
		}
	}
	wg.Wait()
	res <- n
	vEmit("n", n)
}

// RWMutex readers vs writer, TryLock-free
func vh_ST_rwmutex() {
	var mu sync.RWMutex
	x := 0
	r1, r2 := -1, -1
	var wg sync.WaitGroup
	wg.Add(3)
	go func() { defer wg.Done(); mu.RLock(); r1 = x; mu.RUnlock() }()
	go func() { defer wg.Done(); mu.RLock(); r2 = x; mu.RUnlock() }()
	go func() { defer wg.Done(); mu.Lock(); x = 5; mu.Unlock() }()
	wg.Wait()
	vEmit("r1", r1)
	vEmit("r2", r2)
}

// buffered channel producer/consumer with pool-style non-blocking put
func vh_ST_pool() {
	p := make(chan int, 1)
	out := make(chan int, 3)
	var wg sync.WaitGroup
	wg.Add(2)
	put := func(v int) {
		select {
		case p <- v:
		default:
		}
	}
	get := func() int {
		select {
		case v := <-p:
			return v
		default:
			return 0
		}
	}
	go func() { defer wg.Done(); put(7); out <- get() }()
	go func() { defer wg.Done(); put(8); out <- get() }()
	wg.Wait()
	a, b := <-out, <-out
	vEmit("a", a)
	vEmit("b", b)
}
