#!/usr/bin/env python3
"""Self-test of the scheduler model: every mini program is explored naively
(all interleavings) and with the sleep-set reduction; the sets of observable
outcomes must be identical. Exit 0 on agreement."""
import json, os, re, subprocess, sys, shutil, tempfile
V = os.path.dirname(os.path.dirname(os.path.abspath(__file__)))
src = os.path.join(V, "selftest", "sched")
ok = True
for mode in ("sleep", "naive"):
    d = tempfile.mkdtemp(prefix="gosmt-st-")
    for f in os.listdir(src):
        s = open(os.path.join(src, f)).read()
        if mode == "naive":
            s = re.sub(r"(?m)^func vh_", "//verif:nopor\nfunc vh_", s)
        open(os.path.join(d, f), "w").write(s)
    env = dict(os.environ, GOSMT_EMITHIST="1")
    extra = sys.argv[1:] 
    hs = [os.path.join(V, "harness", "common"), os.path.join(V, "harness", "common_sftp")] + extra + [d]
    out = os.path.join(d, "out")
    r = subprocess.run([os.path.join(V, "bin", "gosmt"), "run", "-harness", ",".join(hs), "-entry", "vh_(ST|X)_", "-out", out, "-maxtime", "600", "-maxpaths", "3000000"], env=env, capture_output=True, text=True)
    if r.returncode != 0:
        print(r.stdout, r.stderr); sys.exit(2)
    res = json.load(open(os.path.join(out, "result.json")))
    cur = {e["name"]: (set((e.get("emit_hist") or {}).keys()), e["paths"], e["inconclusive"], [v["label"] for v in e["violations"] or []]) for e in res["entries"]}
    if mode == "sleep":
        first = cur
    shutil.rmtree(d)
for name in sorted(first):
    a, b = first[name], cur[name]
    same = a[0] == b[0] and sorted(a[3]) == sorted(b[3]) and not a[2] and not b[2]
    print("%-28s sleep-set: %6d paths %2d outcomes | naive: %7d paths %2d outcomes | %s" % (name, a[1], len(a[0]), b[1], len(b[0]), "agree" if same else "DISAGREE %s %s %s %s" % (a[0] ^ b[0], a[2], b[2], (a[3], b[3]))))
    ok = ok and same
sys.exit(0 if ok else 1)
