#!/usr/bin/env python3
"""Regenerates MANIFEST.json from the table below (keeps it valid at all times)."""
import json, os
V = os.path.dirname(os.path.abspath(__file__))
props = [json.loads(l) for l in open(os.path.join(V, "properties.jsonl"))]
claims = json.load(open(os.path.join(V, "claims.json")))
checks, na = [], []
for p in props:
    pid = p["id"]
    c = claims.get(pid)
    if not c or c.get("not_applicable"):
        na.append({"property_id": pid, "reason": (c or {}).get("not_applicable", "no solver-based check registered at this commit (see DESIGN.md section 5 for the plan)")})
        continue
    checks.append({
        "property_id": pid,
        "quick_cmd": "./check %s quick" % pid,
        "thorough_cmd": "./check %s thorough" % pid,
        "evidence_file": "/verif/evidence/%s.json" % pid,
        "replay_cmd_template": "./replay %s {path}" % pid,
        "engine": "gosmt",
        "level_claimed": {"category": "model_checking", "text": c["text"], "design_ref": "DESIGN.md section 5, " + pid},
        "level_note": c["note"],
        "technique": c.get("technique", "bounded symbolic execution of the package's go/ssa (own SSA->SMT interpreter), every branch/run-time check/assertion decided by z3; counterexamples replayed natively"),
    })
m = {
    "version": 1,
    "setup_cmd": "./build.sh",
    "hooks": {"guard": "verif", "enable": "harnesses are injected as virtual files /repo/**/zz_verif_*.go via go/packages Overlay (analysis) and `go test -tags verif -overlay` (native replay); nothing is written to /repo",
              "baseline_off_cmd": "cd /repo && GOFLAGS=-mod=mod GOPROXY=off go test -vet=off -count=1 ./...", "source_commits": claims.get("_hook_commits", []), "add_only": True},
    "engines": [{"name": "gosmt", "path": "/verif/engine", "serves_properties": [c["property_id"] for c in checks],
                 "kind_free_text": "path-exploring symbolic interpreter for go/ssa (built from /repo's working tree on every run) emitting SMT-LIB2 (QF arrays + bit-vectors) to a persistent z3 process per worker; goroutines interpreted with sleep-set partial-order reduction"}],
    "checks": checks,
    "not_applicable": na,
    "notes": "exit 0 = held within the stated bounds; exit 1 = VIOLATION (confirmed by native replay); exit 2 = inconclusive (never success). Known findings: /verif/known_findings.json.",
}
json.dump(m, open(os.path.join(V, "MANIFEST.json"), "w"), indent=1)
print("checks:", [c["property_id"] for c in checks], "n/a:", len(na))
