#!/usr/bin/env python3
import json,os,re,glob
V=os.path.dirname(os.path.abspath(__file__))
rows=[]
for d in sorted(glob.glob(V+'/seeded/*/')):
    sid=os.path.basename(d.rstrip('/'))
    meta=json.load(open(d+'meta.json'))
    det=[]; rc='?'
    for c in sorted(glob.glob(d+'check_*.txt')):
        txt=open(c).read()
        for m in re.finditer(r'^VIOLATION property=(\S+) replay=\S+\s+# (\S+): (\w+) (.*?) @', txt, re.M):
            det.append("%s: %s"%(m.group(2), m.group(4)[:100]))
        m=re.search(r'check exit (\d+)', txt); rc=m.group(1) if m else '?'
    meta['check_exit']=int(rc) if rc.isdigit() else rc
    meta['detected_by']=sorted(set(det))[:4]
    if os.path.exists(d+'verify.txt'):
        meta['verified_here']=open(d+'verify.txt').read().strip().split('\n')
    json.dump(meta,open(d+'meta.json','w'),indent=1)
    note=meta.get('note','')
    rows.append((sid,meta.get('property'),meta.get('summary','')[:160].replace('|','/'),meta.get('needs','')[:140].replace('|','/'),rc,('; '.join(sorted(set(det))[:2]) or '-')+((' — '+note) if note else '')))
with open(V+'/seeded/README.md','w') as f:
    f.write("# Seeded changes\n\nEach directory holds a change to pkg/sftp written by an independent sub-agent that saw only the property text (never /verif): `patch.diff`, `demo_test.go` (fails with the change, passes without), `meta.json` (what it needs to manifest, what was run, which check reports it) and the output of the property's check run against the change (`check_<tier>.txt`). Every change was re-verified here in a scratch worktree (`verify.txt`): it compiles, the existing suite passes with it, the demonstration fails with it and passes without it. None is ever committed to /repo. Re-run one with `./seedeval.sh <seed> <property> /nonexistent`.\n\n| seed | property | change | needs | check exit | reported by |\n|---|---|---|---|---|---|\n")
    for r in rows:
        f.write("| %s | %s | %s | %s | %s | %s |\n"%r)
print(len(rows),"seeds;", sum(1 for r in rows if r[4]=='1'), "reported")
