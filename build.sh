#!/bin/sh
# Builds the symbolic engine offline (go1.26.8 + golang.org/x/tools v0.50.0 from the module cache).
set -e
cd "$(dirname "$0")/engine"
export PATH=/opt/veriftools/go1.26.8/bin:$PATH GOFLAGS=-mod=mod GOPROXY=off GOSUMDB=off GOTOOLCHAIN=local
mkdir -p ../bin
go build -o ../bin/gosmt .
echo "built $(cd .. && pwd)/bin/gosmt"
