#!/usr/bin/env python3
# regenerates the seeded-change table of DESIGN.md section 10.3 from seeded/*/meta.json
import json,glob,os,re
V=os.path.dirname(os.path.abspath(__file__))
rows=[]
for d in sorted(glob.glob(V+'/seeded/*/')):
    sid=os.path.basename(d.rstrip('/'))
    m=json.load(open(d+'meta.json'))
    hs=sorted(set(x.split(':')[0] for x in m.get('detected_by',[])))
    rows.append("| %s | %s | %s | %s |"%(sid,m.get('summary','')[:150].replace('|','/'),', '.join(hs) or "(none of %s's harnesses)"%m.get('property'),m.get('note','')[:200]))
s=open(V+'/DESIGN.md').read()
a=s.index('| seed | change | reported by (harness) | note |')
b=s.index('\n\n',a)
s=s[:a]+'| seed | change | reported by (harness) | note |\n|---|---|---|---|\n'+'\n'.join(rows)+s[b:]
open(V+'/DESIGN.md','w').write(s)
print(len(rows),'rows')
