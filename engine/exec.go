package main

import (
	"fmt"
	"go/constant"
	"go/token"
	"go/types"

	"golang.org/x/tools/go/ssa"
)

func (in *Interp) get(fr *Frame, v ssa.Value) Value {
	switch x := v.(type) {
	case *ssa.Const:
		return in.constVal(fr, x)
	case *ssa.Global:
		return Ptrv{Cell: in.globalCell(x)}
	case *ssa.Function:
		return FuncV{Fn: x}
	case *ssa.Builtin:
		return x
	}
	val, ok := fr.env[v]
	if !ok {
		panic(abortf("INTERNAL", "no value for %s (%T) in %s", v.Name(), v, fr.fn))
	}
	return val
}

func (in *Interp) constVal(fr *Frame, c *ssa.Const) Value {
	t := c.Type()
	if c.Value == nil {
		return in.zero(t)
	}
	switch u := t.Underlying().(type) {
	case *types.Basic:
		if w, _, ok := intWidth(u); ok {
			var v uint64
			if i, exact := constant.Int64Val(constant.ToInt(c.Value)); exact {
				v = uint64(i)
			} else if ui, exact := constant.Uint64Val(constant.ToInt(c.Value)); exact {
				v = ui
			}
			if fr != nil {
				if ov, ok := in.P.constOv[fr.fn.String()]; ok && int64(v) == ov[0] && u.Kind() == types.Int {
					v = uint64(ov[1])
				}
			}
			return BVv{in.ts.BV(v, w)}
		}
		switch u.Kind() {
		case types.Bool, types.UntypedBool:
			return Boolv{in.ts.Bool(constant.BoolVal(c.Value))}
		case types.String, types.UntypedString:
			return in.constStr(constant.StringVal(c.Value))
		case types.Float32, types.Float64, types.UntypedFloat:
			f, _ := constant.Float64Val(c.Value)
			return FloatV{f}
		}
	}
	return UnsupV{"const " + c.String()}
}

func (in *Interp) globalCell(g *ssa.Global) *Cell {
	if c, ok := in.globals[g]; ok {
		return c
	}
	elem := g.Type().(*types.Pointer).Elem()
	c := in.newCell(elem)
	in.globals[g] = c
	if g.Pkg != nil && !in.allowInit(g.Pkg) {
		// package whose init is not interpreted: only known globals may be read
		path := g.Pkg.Pkg.Path()
		switch {
		case path == "os" && (g.Name() == "ErrInvalid" || g.Name() == "ErrPermission" || g.Name() == "ErrExist" || g.Name() == "ErrNotExist" || g.Name() == "ErrClosed"):
			// os.ErrX = fs.ErrX
			if fsp := in.P.pkgs["io/fs"]; fsp != nil {
				if fg, ok := fsp.Members[g.Name()].(*ssa.Global); ok {
					in.store(c, in.load(in.globalCell(fg)))
				}
			}
		case path == "errors" && g.Name() == "ErrUnsupported":
			t := in.namedType("errors", "errorString")
			ec := in.newCell(t)
			in.store(ec, StructV{[]Value{in.constStr("unsupported operation")}})
			in.store(c, IfaceV{T: types.NewPointer(t), V: Ptrv{Cell: ec}})
		case path == "time" && (g.Name() == "Local" || g.Name() == "UTC" || g.Name() == "localLoc" || g.Name() == "utcLoc"):
			// only carried around inside time.Time; formatting is never interpreted
		case in.zeroValueGlobalOK(elem):
		default:
			panic(abortf("UNMODELLED", "read of global %s.%s whose package init is not interpreted", path, g.Name()))
		}
	}
	return c
}

// ---------------------------------------------------------------------

func (in *Interp) pushFrame(th *Thread, fn *ssa.Function, args []Value, bindings []Value, retTo ssa.Value) *Frame {
	if len(fn.Blocks) == 0 {
		panic(abortf("UNMODELLED", "call of external function %s", fn))
	}
	if len(th.frames) > 200 {
		panic(abortf("BOUND-EXCEEDED", "call depth > 200 in %s", fn))
	}
	fr := &Frame{fn: fn, env: make(map[ssa.Value]Value, 16), block: fn.Blocks[0], retTo: retTo, visits: map[int]int{}}
	if len(args) != len(fn.Params) {
		panic(abortf("INTERNAL", "arity mismatch calling %s: %d vs %d", fn, len(args), len(fn.Params)))
	}
	for i, p := range fn.Params {
		fr.env[p] = args[i]
	}
	for i, fv := range fn.FreeVars {
		fr.env[fv] = bindings[i]
	}
	th.frames = append(th.frames, fr)
	in.funcs[fn.String()]++
	return fr
}

// runtimePanic raises a Go run-time panic in the current thread.
func (in *Interp) runtimePanic(th *Thread, msg string) {
	site := ""
	if len(th.frames) > 0 {
		f := th.frames[len(th.frames)-1]
		site = f.fn.String()
		if f.block != nil && f.pc < len(f.block.Instrs) {
			p := in.P.prog.Fset.Position(f.block.Instrs[f.pc].Pos())
			if p.IsValid() {
				site = fmt.Sprintf("%s %s:%d", site, trimPath(p.Filename), p.Line)
			}
		}
	}
	in.startPanic(th, IfaceV{T: types.Typ[types.String], V: in.constStr("runtime error: " + msg)}, "runtime: "+msg+" @ "+site)
}

func (in *Interp) startPanic(th *Thread, v Value, site string) {
	save := in.cur
	in.cur = th
	tr := in.stackTrace()
	in.cur = save
	th.panicV = &PanicState{val: v, site: site, trace: tr}
	in.unwind(th)
}

// unwind continues panic propagation: run deferred calls of the top frame,
// or pop it.
func (in *Interp) unwind(th *Thread) {
	for {
		if len(th.frames) == 0 {
			// uncaught panic: the whole program dies
			panic(&uncaughtPanic{th: th, ps: th.panicV})
		}
		fr := th.frames[len(th.frames)-1]
		if len(fr.defers) > 0 {
			d := fr.defers[len(fr.defers)-1]
			fr.defers = fr.defers[:len(fr.defers)-1]
			fr.running = true
			in.invokeDeferred(th, fr, d, true)
			return
		}
		// no more defers: pop frame
		th.frames = th.frames[:len(th.frames)-1]
		if fr.onRet != nil {
			// engine continuation frames are dropped during unwinding
		}
	}
}

type uncaughtPanic struct {
	th *Thread
	ps *PanicState
}

// afterDeferredReturn is called when a deferred call invoked during panic
// unwinding returns.
func (in *Interp) afterDeferredReturn(th *Thread, owner *Frame) {
	if th.panicV != nil && th.panicV.recovered {
		// recovered: owner returns normally to its caller
		th.panicV = nil
		owner.running = false
		// run remaining defers normally, then return via Recover block
		if len(owner.defers) > 0 {
			d := owner.defers[len(owner.defers)-1]
			owner.defers = owner.defers[:len(owner.defers)-1]
			owner.unwound = true
			in.invokeDeferred(th, owner, d, false)
			return
		}
		in.finishRecovered(th, owner)
		return
	}
	in.unwind(th)
}

func (in *Interp) finishRecovered(th *Thread, owner *Frame) {
	owner.unwound = false
	if owner.fn.Recover != nil {
		owner.prev = owner.block
		owner.block = owner.fn.Recover
		owner.pc = 0
		return
	}
	// return zero values
	var res Value
	sig := owner.fn.Signature
	switch sig.Results().Len() {
	case 0:
	case 1:
		res = in.zero(sig.Results().At(0).Type())
	default:
		res = in.zero(sig.Results())
	}
	in.doReturn(th, owner, res)
}

func (in *Interp) invokeDeferred(th *Thread, owner *Frame, d Deferred, byPanic bool) {
	cont := func(Value) {
		if byPanic {
			in.afterDeferredReturn(th, owner)
		} else if owner.unwound {
			// finishing defers after a recovered panic
			if len(owner.defers) > 0 {
				nd := owner.defers[len(owner.defers)-1]
				owner.defers = owner.defers[:len(owner.defers)-1]
				in.invokeDeferred(th, owner, nd, false)
				return
			}
			in.finishRecovered(th, owner)
		}
		// normal RunDefers: the RunDefers instruction re-executes
	}
	in.callValue(th, d.fn, d.args, nil, cont, byPanic)
}

// doReturn pops fr and delivers res to the caller.
func (in *Interp) doReturn(th *Thread, fr *Frame, res Value) {
	if th.frames[len(th.frames)-1] != fr {
		panic(abortf("INTERNAL", "doReturn: frame is not on top"))
	}
	th.frames = th.frames[:len(th.frames)-1]
	if fr.onRet != nil {
		fr.onRet(res)
		return
	}
	if len(th.frames) == 0 {
		th.done = true
		return
	}
	caller := th.frames[len(th.frames)-1]
	if fr.retTo != nil {
		caller.env[fr.retTo] = res
	}
	caller.pc++
}

// ---------------------------------------------------------------------

// step executes one instruction of th. Returns false if the thread must
// yield to the scheduler (blocked or at an ungranted visible operation).
func (in *Interp) step(th *Thread) bool {
	fr := th.frames[len(th.frames)-1]
	if fr.pc >= len(fr.block.Instrs) {
		panic(abortf("INTERNAL", "pc past end of block in %s", fr.fn))
	}
	instr := fr.block.Instrs[fr.pc]
	in.steps++
	if in.steps > in.cfg.MaxSteps {
		panic(abortf("BOUND-EXCEEDED", "more than %d steps", in.cfg.MaxSteps))
	}
	switch x := instr.(type) {
	case *ssa.DebugRef:
		fr.pc++
	case *ssa.Alloc:
		fr.env[x] = Ptrv{Cell: in.newCell(x.Type().(*types.Pointer).Elem())}
		fr.pc++
	case *ssa.Phi:
		// evaluate all phis of the block simultaneously
		vals := []Value{}
		phis := []*ssa.Phi{}
		idx := -1
		for i, p := range fr.block.Preds {
			if p == fr.prev {
				idx = i
				break
			}
		}
		if idx < 0 {
			panic(abortf("INTERNAL", "phi: predecessor not found"))
		}
		k := fr.pc
		for k < len(fr.block.Instrs) {
			p, ok := fr.block.Instrs[k].(*ssa.Phi)
			if !ok {
				break
			}
			phis = append(phis, p)
			vals = append(vals, in.get(fr, p.Edges[idx]))
			k++
		}
		for i, p := range phis {
			fr.env[p] = vals[i]
		}
		fr.pc = k
	case *ssa.BinOp:
		r, ok := in.binop(th, fr, x.Op, in.get(fr, x.X), in.get(fr, x.Y), x.X.Type(), x.Type())
		if !ok {
			return true // panicked
		}
		fr.env[x] = r
		fr.pc++
	case *ssa.UnOp:
		if x.Op == token.ARROW {
			return in.execRecv(th, fr, x)
		}
		r, ok := in.unop(th, fr, x)
		if !ok {
			return true
		}
		fr.env[x] = r
		fr.pc++
	case *ssa.Store:
		p := in.get(fr, x.Addr).(Ptrv)
		if !in.storePtr(th, p, in.get(fr, x.Val)) {
			return true
		}
		fr.pc++
	case *ssa.If:
		c := in.get(fr, x.Cond).(Boolv)
		if !c.T.IsConst() && in.tryIfConvert(fr, c.T) {
			break
		}
		side := in.branch(c.T)
		fr.prev = fr.block
		if side {
			fr.block = fr.block.Succs[0]
		} else {
			fr.block = fr.block.Succs[1]
		}
		fr.pc = 0
		in.visit(fr)
	case *ssa.Jump:
		fr.prev = fr.block
		fr.block = fr.block.Succs[0]
		fr.pc = 0
		in.visit(fr)
	case *ssa.Return:
		var res Value
		switch len(x.Results) {
		case 0:
		case 1:
			res = in.get(fr, x.Results[0])
		default:
			tv := make(TupleV, len(x.Results))
			for i, r := range x.Results {
				tv[i] = in.get(fr, r)
			}
			res = tv
		}
		in.doReturn(th, fr, res)
	case *ssa.RunDefers:
		if len(fr.defers) > 0 {
			d := fr.defers[len(fr.defers)-1]
			fr.defers = fr.defers[:len(fr.defers)-1]
			in.invokeDeferred(th, fr, d, false)
			// pc stays: re-executed when the deferred call returns
		} else {
			fr.pc++
		}
	case *ssa.Defer:
		fnv, args := in.prepareCall(th, fr, &x.Call)
		if fnv == nil {
			return true
		}
		fr.defers = append(fr.defers, Deferred{fn: fnv, args: args, call: &x.Call})
		fr.pc++
	case *ssa.Go:
		fnv, args := in.prepareCall(th, fr, &x.Call)
		if fnv == nil {
			return true
		}
		in.spawn(fnv, args)
		fr.pc++
	case *ssa.Panic:
		v := in.get(fr, x.X)
		in.startPanic(th, v, "panic @ "+in.siteOf(fr))
	case *ssa.Call:
		return in.execCall(th, fr, x)
	case *ssa.Send:
		return in.execSend(th, fr, x)
	case *ssa.Select:
		return in.execSelect(th, fr, x)
	case *ssa.MakeInterface:
		fr.env[x] = IfaceV{T: x.X.Type(), V: in.get(fr, x.X)}
		fr.pc++
	case *ssa.ChangeInterface:
		fr.env[x] = in.get(fr, x.X)
		fr.pc++
	case *ssa.ChangeType:
		fr.env[x] = in.get(fr, x.X)
		fr.pc++
	case *ssa.Convert:
		fr.env[x] = in.convert(in.get(fr, x.X), x.X.Type(), x.Type())
		fr.pc++
	case *ssa.MultiConvert:
		fr.env[x] = in.convert(in.get(fr, x.X), x.X.Type(), x.Type())
		fr.pc++
	case *ssa.MakeClosure:
		b := make([]Value, len(x.Bindings))
		for i, bv := range x.Bindings {
			b[i] = in.get(fr, bv)
		}
		fr.env[x] = FuncV{Fn: x.Fn.(*ssa.Function), Bindings: b}
		fr.pc++
	case *ssa.MakeMap:
		mt := x.Type().Underlying().(*types.Map)
		in.objCount++
		fr.env[x] = MapV{&MapObj{id: in.objCount, keyType: mt.Key(), valType: mt.Elem()}}
		fr.pc++
	case *ssa.MakeChan:
		sz := in.get(fr, x.Size).(BVv)
		n := in.concretize(sz.T, 64, "channel capacity")
		fr.env[x] = ChanV{in.newChan(n, x.Type().Underlying().(*types.Chan).Elem())}
		fr.pc++
	case *ssa.MakeSlice:
		r, ok := in.makeSlice(th, fr, x)
		if !ok {
			return true
		}
		fr.env[x] = r
		fr.pc++
	case *ssa.Slice:
		r, ok := in.sliceOp(th, fr, x)
		if !ok {
			return true
		}
		fr.env[x] = r
		fr.pc++
	case *ssa.FieldAddr:
		p := in.get(fr, x.X).(Ptrv)
		if p.IsNil() {
			in.runtimePanic(th, "invalid memory address or nil pointer dereference")
			return true
		}
		if p.Cell == nil || p.Cell.fields == nil {
			panic(abortf("INTERNAL", "FieldAddr on non-struct cell in %s", fr.fn))
		}
		fr.env[x] = Ptrv{Cell: p.Cell.fields[x.Field]}
		fr.pc++
	case *ssa.Field:
		s := in.get(fr, x.X).(StructV)
		fr.env[x] = s.F[x.Field]
		fr.pc++
	case *ssa.IndexAddr:
		r, ok := in.indexAddr(th, fr, x)
		if !ok {
			return true
		}
		fr.env[x] = r
		fr.pc++
	case *ssa.Index:
		r, ok := in.indexVal(th, fr, x)
		if !ok {
			return true
		}
		fr.env[x] = r
		fr.pc++
	case *ssa.Lookup:
		r, ok := in.lookup(th, fr, x)
		if !ok {
			return true
		}
		fr.env[x] = r
		fr.pc++
	case *ssa.MapUpdate:
		m := in.get(fr, x.Map).(MapV)
		if m.M == nil {
			in.runtimePanic(th, "assignment to entry in nil map")
			return true
		}
		in.mapUpdate(m.M, in.get(fr, x.Key), in.get(fr, x.Value))
		fr.pc++
	case *ssa.Range:
		fr.env[x] = in.makeIter(in.get(fr, x.X))
		fr.pc++
	case *ssa.Next:
		fr.env[x] = in.iterNext(in.get(fr, x.Iter).(*IterV), x)
		fr.pc++
	case *ssa.TypeAssert:
		r, ok := in.typeAssert(th, fr, x)
		if !ok {
			return true
		}
		fr.env[x] = r
		fr.pc++
	case *ssa.Extract:
		t := in.get(fr, x.Tuple).(TupleV)
		fr.env[x] = t[x.Index]
		fr.pc++
	default:
		panic(abortf("UNSUPPORTED", "instruction %T in %s", instr, fr.fn))
	}
	return true
}

func (in *Interp) siteOf(fr *Frame) string {
	s := fr.fn.String()
	if fr.block != nil && fr.pc < len(fr.block.Instrs) {
		p := in.P.prog.Fset.Position(fr.block.Instrs[fr.pc].Pos())
		if p.IsValid() {
			s = fmt.Sprintf("%s %s:%d", s, trimPath(p.Filename), p.Line)
		}
	}
	return s
}

func (in *Interp) visit(fr *Frame) {
	fr.visits[fr.block.Index]++
	if fr.visits[fr.block.Index] > in.cfg.MaxVisits {
		if in.cfg.PruneUnwind && len(in.threads) > 1 {
			in.unfair++
			panic(abortf("SLEEP", "unfair schedule (loop bound)"))
		}
		panic(abortf("BOUND-EXCEEDED", "block %d of %s visited more than %d times (unwinding bound)", fr.block.Index, fr.fn, in.cfg.MaxVisits))
	}
}

// storePtr stores v through p; returns false if it panicked.
func (in *Interp) storePtr(th *Thread, p Ptrv, v Value) bool {
	if p.IsNil() {
		in.runtimePanic(th, "invalid memory address or nil pointer dereference")
		return false
	}
	if p.Bobj != nil {
		p.Bobj.arr = in.ts.StoreArr(p.Bobj.arr, p.Idx, v.(BVv).T)
		return true
	}
	in.store(p.Cell, v)
	return true
}

func (in *Interp) loadPtr(th *Thread, p Ptrv) (Value, bool) {
	if p.IsNil() {
		in.runtimePanic(th, "invalid memory address or nil pointer dereference")
		return nil, false
	}
	if p.Bobj != nil {
		return BVv{in.ts.Select(p.Bobj.arr, p.Idx)}, true
	}
	return in.load(p.Cell), true
}

// zeroValueGlobalOK: globals that are meaningful at their zero value
// (empty structs such as binary.BigEndian, sync primitives, counters).
func (in *Interp) zeroValueGlobalOK(t types.Type) bool {
	switch u := t.Underlying().(type) {
	case *types.Struct:
		if u.NumFields() == 0 {
			return true
		}
		if n, ok := t.(*types.Named); ok && n.Obj().Pkg() != nil {
			switch n.Obj().Pkg().Path() {
			case "sync", "sync/atomic":
				return true
			}
		}
	case *types.Basic:
		// init guards and plain counters
		return u.Kind() == types.Bool
	}
	return false
}
