package main

// Hash-consed SMT terms over Bool, (_ BitVec n) with n<=64 and
// (Array (_ BitVec 64) (_ BitVec 8)), with constant folding, an exact
// evaluator (SMT-LIB semantics) and an SMT-LIB2 printer.

import (
	"fmt"
	"strings"
)

type Op uint8

const (
	OpConst Op = iota // bool or bv constant (val)
	OpVar             // free symbol (name)
	OpNot
	OpAnd
	OpOr
	OpIte
	OpEq
	OpAdd
	OpSub
	OpMul
	OpUDiv
	OpURem
	OpSDiv
	OpSRem
	OpBAnd
	OpBOr
	OpBXor
	OpBNot
	OpNeg
	OpShl
	OpLShr
	OpAShr
	OpULt
	OpULe
	OpSLt
	OpSLe
	OpConcat
	OpExtract // hi, lo
	OpZExt    // to width
	OpSExt    // to width
	OpSelect
	OpStore
	OpConstArr // all elements = val
	OpStrArr   // array whose first len(name) bytes are name, rest 0
)

type SortKind uint8

const (
	SBool SortKind = iota
	SBV
	SArr
)

type Sort struct {
	K SortKind
	W int
}

var BoolSort = Sort{SBool, 0}
var ArrSort = Sort{SArr, 0}

func BVSort(w int) Sort { return Sort{SBV, w} }

func (s Sort) String() string {
	switch s.K {
	case SBool:
		return "Bool"
	case SBV:
		return fmt.Sprintf("(_ BitVec %d)", s.W)
	default:
		return "(Array (_ BitVec 64) (_ BitVec 8))"
	}
}

type Term struct {
	id   int
	op   Op
	sort Sort
	args []*Term
	val  uint64
	name string
	hi   int
	lo   int
}

func (t *Term) IsConst() bool { return t.op == OpConst }
func (t *Term) Sort() Sort    { return t.sort }
func (t *Term) W() int        { return t.sort.W }

type termKey struct {
	op         Op
	sort       Sort
	a0, a1, a2 int
	val        uint64
	name       string
	hi, lo     int
}

type Store struct {
	tab   map[termKey]*Term
	next  int
	True  *Term
	False *Term
	// declared vars in creation order
	vars []*Term
}

func NewStore() *Store {
	s := &Store{tab: map[termKey]*Term{}}
	s.True = s.mk(OpConst, BoolSort, nil, 1, "", 0, 0)
	s.False = s.mk(OpConst, BoolSort, nil, 0, "", 0, 0)
	return s
}

func (s *Store) mk(op Op, sort Sort, args []*Term, val uint64, name string, hi, lo int) *Term {
	k := termKey{op: op, sort: sort, val: val, name: name, hi: hi, lo: lo, a0: -1, a1: -1, a2: -1}
	if len(args) > 0 {
		k.a0 = args[0].id
	}
	if len(args) > 1 {
		k.a1 = args[1].id
	}
	if len(args) > 2 {
		k.a2 = args[2].id
	}
	if len(args) > 3 {
		panic("too many args")
	}
	if t, ok := s.tab[k]; ok {
		return t
	}
	t := &Term{id: s.next, op: op, sort: sort, args: args, val: val, name: name, hi: hi, lo: lo}
	s.next++
	s.tab[k] = t
	if op == OpVar {
		s.vars = append(s.vars, t)
	}
	return t
}

func mask(w int) uint64 {
	if w >= 64 {
		return ^uint64(0)
	}
	return (uint64(1) << uint(w)) - 1
}

func sext64(v uint64, w int) int64 {
	if w >= 64 {
		return int64(v)
	}
	if v&(uint64(1)<<uint(w-1)) != 0 {
		return int64(v | ^mask(w))
	}
	return int64(v)
}

func (s *Store) Bool(b bool) *Term {
	if b {
		return s.True
	}
	return s.False
}

func (s *Store) BV(v uint64, w int) *Term {
	return s.mk(OpConst, BVSort(w), nil, v&mask(w), "", 0, 0)
}

func (s *Store) Var(name string, sort Sort) *Term {
	return s.mk(OpVar, sort, nil, 0, name, 0, 0)
}

func (s *Store) ConstArr(v uint8) *Term {
	return s.mk(OpConstArr, ArrSort, nil, uint64(v), "", 0, 0)
}

func (s *Store) StrArr(str string) *Term {
	return s.mk(OpStrArr, ArrSort, nil, 0, str, 0, 0)
}

func (s *Store) Not(a *Term) *Term {
	if a.IsConst() {
		return s.Bool(a.val == 0)
	}
	if a.op == OpNot {
		return a.args[0]
	}
	return s.mk(OpNot, BoolSort, []*Term{a}, 0, "", 0, 0)
}

func (s *Store) And(a, b *Term) *Term {
	if a.IsConst() {
		if a.val == 0 {
			return s.False
		}
		return b
	}
	if b.IsConst() {
		if b.val == 0 {
			return s.False
		}
		return a
	}
	if a == b {
		return a
	}
	return s.mk(OpAnd, BoolSort, []*Term{a, b}, 0, "", 0, 0)
}

func (s *Store) Or(a, b *Term) *Term {
	if a.IsConst() {
		if a.val != 0 {
			return s.True
		}
		return b
	}
	if b.IsConst() {
		if b.val != 0 {
			return s.True
		}
		return a
	}
	if a == b {
		return a
	}
	return s.mk(OpOr, BoolSort, []*Term{a, b}, 0, "", 0, 0)
}

func (s *Store) Ite(c, a, b *Term) *Term {
	if c.IsConst() {
		if c.val != 0 {
			return a
		}
		return b
	}
	if a == b {
		return a
	}
	if a.sort != b.sort {
		panic(fmt.Sprintf("ite sort mismatch %v %v", a.sort, b.sort))
	}
	if a.sort.K == SBool {
		if a.IsConst() && b.IsConst() {
			if a.val != 0 {
				return c
			}
			return s.Not(c)
		}
	}
	return s.mk(OpIte, a.sort, []*Term{c, a, b}, 0, "", 0, 0)
}

func (s *Store) Eq(a, b *Term) *Term {
	if a == b {
		return s.True
	}
	if a.sort != b.sort {
		panic(fmt.Sprintf("eq sort mismatch %v %v", a.sort, b.sort))
	}
	if a.IsConst() && b.IsConst() {
		return s.Bool(a.val == b.val)
	}
	if a.sort.K == SBool {
		if a.IsConst() {
			if a.val != 0 {
				return b
			}
			return s.Not(b)
		}
		if b.IsConst() {
			if b.val != 0 {
				return a
			}
			return s.Not(a)
		}
	}
	if a.id > b.id {
		a, b = b, a
	}
	// eq(zext(x), const) with const out of range => false
	if b.IsConst() && a.op == OpZExt {
		a, b = b, a
	}
	if a.IsConst() && b.op == OpZExt {
		iw := b.args[0].sort.W
		if a.val&^mask(iw) != 0 {
			return s.False
		}
		return s.Eq(s.BV(a.val, iw), b.args[0])
	}
	return s.mk(OpEq, BoolSort, []*Term{a, b}, 0, "", 0, 0)
}

func (s *Store) bin(op Op, a, b *Term) *Term {
	if a.sort != b.sort {
		panic(fmt.Sprintf("binop %d sort mismatch %v %v", op, a.sort, b.sort))
	}
	w := a.sort.W
	if a.IsConst() && b.IsConst() {
		return s.BV(evalBin(op, a.val, b.val, w), w)
	}
	switch op {
	case OpAdd:
		if a.IsConst() && a.val == 0 {
			return b
		}
		if b.IsConst() && b.val == 0 {
			return a
		}
		// (x + c1) + c2 => x + (c1+c2)
		if b.IsConst() && a.op == OpAdd && a.args[1].IsConst() {
			return s.bin(OpAdd, a.args[0], s.BV(a.args[1].val+b.val, w))
		}
		if a.IsConst() {
			a, b = b, a
			if a.op == OpAdd && a.args[1].IsConst() {
				return s.bin(OpAdd, a.args[0], s.BV(a.args[1].val+b.val, w))
			}
		}
	case OpSub:
		if b.IsConst() && b.val == 0 {
			return a
		}
		if a == b {
			return s.BV(0, w)
		}
		if b.IsConst() {
			return s.bin(OpAdd, a, s.BV(-b.val, w))
		}
		// (x + c) - x => c
		if a.op == OpAdd && a.args[0] == b {
			return a.args[1]
		}
	case OpMul:
		if a.IsConst() && a.val == 1 {
			return b
		}
		if b.IsConst() && b.val == 1 {
			return a
		}
		if (a.IsConst() && a.val == 0) || (b.IsConst() && b.val == 0) {
			return s.BV(0, w)
		}
	case OpBAnd:
		if a == b {
			return a
		}
		if a.IsConst() {
			a, b = b, a
		}
		if b.IsConst() {
			if b.val == 0 {
				return s.BV(0, w)
			}
			if b.val == mask(w) {
				return a
			}
			// and(zext(x), c) where c covers all of x's bits
			if a.op == OpZExt && b.val&mask(a.args[0].sort.W) == mask(a.args[0].sort.W) {
				return a
			}
		}
	case OpBOr:
		if a == b {
			return a
		}
		if a.IsConst() && a.val == 0 {
			return b
		}
		if b.IsConst() && b.val == 0 {
			return a
		}
	case OpBXor:
		if a == b {
			return s.BV(0, w)
		}
		if a.IsConst() && a.val == 0 {
			return b
		}
		if b.IsConst() && b.val == 0 {
			return a
		}
	case OpShl, OpLShr:
		if b.IsConst() {
			if b.val == 0 {
				return a
			}
			if b.val >= uint64(w) {
				return s.BV(0, w)
			}
		}
	case OpAShr:
		if b.IsConst() && b.val == 0 {
			return a
		}
	}
	return s.mk(op, a.sort, []*Term{a, b}, 0, "", 0, 0)
}

func (s *Store) Add(a, b *Term) *Term  { return s.bin(OpAdd, a, b) }
func (s *Store) Sub(a, b *Term) *Term  { return s.bin(OpSub, a, b) }
func (s *Store) Mul(a, b *Term) *Term  { return s.bin(OpMul, a, b) }
func (s *Store) UDiv(a, b *Term) *Term { return s.bin(OpUDiv, a, b) }
func (s *Store) URem(a, b *Term) *Term { return s.bin(OpURem, a, b) }
func (s *Store) SDiv(a, b *Term) *Term { return s.bin(OpSDiv, a, b) }
func (s *Store) SRem(a, b *Term) *Term { return s.bin(OpSRem, a, b) }
func (s *Store) BAnd(a, b *Term) *Term { return s.bin(OpBAnd, a, b) }
func (s *Store) BOr(a, b *Term) *Term  { return s.bin(OpBOr, a, b) }
func (s *Store) BXor(a, b *Term) *Term { return s.bin(OpBXor, a, b) }
func (s *Store) Shl(a, b *Term) *Term  { return s.bin(OpShl, a, b) }
func (s *Store) LShr(a, b *Term) *Term { return s.bin(OpLShr, a, b) }
func (s *Store) AShr(a, b *Term) *Term { return s.bin(OpAShr, a, b) }

func (s *Store) BNot(a *Term) *Term {
	if a.IsConst() {
		return s.BV(^a.val, a.sort.W)
	}
	return s.mk(OpBNot, a.sort, []*Term{a}, 0, "", 0, 0)
}

func (s *Store) Neg(a *Term) *Term {
	if a.IsConst() {
		return s.BV(-a.val, a.sort.W)
	}
	return s.mk(OpNeg, a.sort, []*Term{a}, 0, "", 0, 0)
}

func (s *Store) cmp(op Op, a, b *Term) *Term {
	if a.sort != b.sort {
		panic(fmt.Sprintf("cmp sort mismatch %v %v", a.sort, b.sort))
	}
	if a.IsConst() && b.IsConst() {
		return s.Bool(evalCmp(op, a.val, b.val, a.sort.W))
	}
	if a == b {
		return s.Bool(op == OpULe || op == OpSLe)
	}
	switch op {
	case OpULt:
		if b.IsConst() && b.val == 0 {
			return s.False
		}
		if a.IsConst() && a.val == mask(a.sort.W) {
			return s.False
		}
	case OpULe:
		if a.IsConst() && a.val == 0 {
			return s.True
		}
		if b.IsConst() && b.val == mask(a.sort.W) {
			return s.True
		}
	}
	// zext(x) <u c where c > max(x)
	if (op == OpULt || op == OpULe) && a.op == OpZExt && b.IsConst() {
		iw := a.args[0].sort.W
		if b.val > mask(iw) {
			return s.True
		}
	}
	if (op == OpULt || op == OpULe) && b.op == OpZExt && a.IsConst() {
		iw := b.args[0].sort.W
		if a.val > mask(iw) {
			return s.False
		}
	}
	return s.mk(op, BoolSort, []*Term{a, b}, 0, "", 0, 0)
}

func (s *Store) ULt(a, b *Term) *Term { return s.cmp(OpULt, a, b) }
func (s *Store) ULe(a, b *Term) *Term { return s.cmp(OpULe, a, b) }
func (s *Store) SLt(a, b *Term) *Term { return s.cmp(OpSLt, a, b) }
func (s *Store) SLe(a, b *Term) *Term { return s.cmp(OpSLe, a, b) }

func (s *Store) Extract(a *Term, hi, lo int) *Term {
	w := hi - lo + 1
	if lo == 0 && w == a.sort.W {
		return a
	}
	if a.IsConst() {
		return s.BV(a.val>>uint(lo), w)
	}
	switch a.op {
	case OpZExt:
		iw := a.args[0].sort.W
		if hi < iw {
			return s.Extract(a.args[0], hi, lo)
		}
		if lo >= iw {
			return s.BV(0, w)
		}
	case OpSExt:
		iw := a.args[0].sort.W
		if hi < iw {
			return s.Extract(a.args[0], hi, lo)
		}
	case OpExtract:
		return s.Extract(a.args[0], hi+a.lo, lo+a.lo)
	case OpConcat:
		lw := a.args[1].sort.W
		if hi < lw {
			return s.Extract(a.args[1], hi, lo)
		}
		if lo >= lw {
			return s.Extract(a.args[0], hi-lw, lo-lw)
		}
	case OpBOr, OpBAnd, OpBXor:
		// distribute extract over bitwise ops: useful for byte recomposition
		x := s.Extract(a.args[0], hi, lo)
		y := s.Extract(a.args[1], hi, lo)
		return s.bin(a.op, x, y)
	case OpShl:
		if a.args[1].IsConst() {
			k := int(a.args[1].val)
			if lo >= k {
				return s.Extract(a.args[0], hi-k, lo-k)
			}
			if hi < k {
				return s.BV(0, w)
			}
		}
	case OpLShr:
		if a.args[1].IsConst() {
			k := int(a.args[1].val)
			if hi+k < a.sort.W {
				return s.Extract(a.args[0], hi+k, lo+k)
			}
			if lo+k >= a.sort.W {
				return s.BV(0, w)
			}
		}
	}
	return s.mk(OpExtract, BVSort(w), []*Term{a}, 0, "", hi, lo)
}

func (s *Store) ZExt(a *Term, w int) *Term {
	if a.sort.W == w {
		return a
	}
	if a.sort.W > w {
		panic("zext to narrower")
	}
	if a.IsConst() {
		return s.BV(a.val, w)
	}
	if a.op == OpZExt {
		return s.ZExt(a.args[0], w)
	}
	return s.mk(OpZExt, BVSort(w), []*Term{a}, 0, "", 0, 0)
}

func (s *Store) SExt(a *Term, w int) *Term {
	if a.sort.W == w {
		return a
	}
	if a.sort.W > w {
		panic("sext to narrower")
	}
	if a.IsConst() {
		return s.BV(uint64(sext64(a.val, a.sort.W)), w)
	}
	if a.op == OpZExt {
		// zext then sext == zext
		return s.ZExt(a.args[0], w)
	}
	return s.mk(OpSExt, BVSort(w), []*Term{a}, 0, "", 0, 0)
}

func (s *Store) Concat(a, b *Term) *Term {
	w := a.sort.W + b.sort.W
	if a.IsConst() && b.IsConst() {
		return s.BV(a.val<<uint(b.sort.W)|b.val, w)
	}
	return s.mk(OpConcat, BVSort(w), []*Term{a, b}, 0, "", 0, 0)
}

func (s *Store) Select(arr, idx *Term) *Term {
	if idx.sort.W != 64 {
		panic("select index width")
	}
	for {
		switch arr.op {
		case OpConstArr:
			return s.BV(arr.val, 8)
		case OpStrArr:
			if idx.IsConst() {
				if idx.val < uint64(len(arr.name)) {
					return s.BV(uint64(arr.name[idx.val]), 8)
				}
				return s.BV(0, 8)
			}
		case OpStore:
			si := arr.args[1]
			if si == idx {
				return arr.args[2]
			}
			if si.IsConst() && idx.IsConst() {
				// different constants
				arr = arr.args[0]
				continue
			}
			// x+c1 vs x+c2 with c1 != c2: distinct
			if b1, c1, ok1 := splitAdd(si); ok1 {
				if b2, c2, ok2 := splitAdd(idx); ok2 && b1 == b2 && c1 != c2 {
					arr = arr.args[0]
					continue
				}
			}
		case OpIte:
			// leave
		}
		break
	}
	return s.mk(OpSelect, BVSort(8), []*Term{arr, idx}, 0, "", 0, 0)
}

// splitAdd views t as base + const.
func splitAdd(t *Term) (*Term, uint64, bool) {
	if t.op == OpAdd && t.args[1].IsConst() {
		return t.args[0], t.args[1].val, true
	}
	if t.op == OpConst {
		return nil, t.val, true
	}
	return t, 0, true
}

func (s *Store) StoreArr(arr, idx, v *Term) *Term {
	if idx.sort.W != 64 || v.sort.W != 8 {
		panic("store sorts")
	}
	// store over store at same index
	if arr.op == OpStore && arr.args[1] == idx {
		arr = arr.args[0]
	}
	return s.mk(OpStore, ArrSort, []*Term{arr, idx, v}, 0, "", 0, 0)
}

func evalBin(op Op, a, b uint64, w int) uint64 {
	m := mask(w)
	a &= m
	b &= m
	switch op {
	case OpAdd:
		return (a + b) & m
	case OpSub:
		return (a - b) & m
	case OpMul:
		return (a * b) & m
	case OpUDiv:
		if b == 0 {
			return m
		}
		return a / b
	case OpURem:
		if b == 0 {
			return a
		}
		return a % b
	case OpSDiv:
		sa, sb := sext64(a, w), sext64(b, w)
		if sb == 0 {
			if sa >= 0 {
				return m
			}
			return 1
		}
		if sb == -1 {
			return uint64(-sa) & m
		}
		return uint64(sa/sb) & m
	case OpSRem:
		sa, sb := sext64(a, w), sext64(b, w)
		if sb == 0 {
			return a
		}
		if sb == -1 {
			return 0
		}
		return uint64(sa%sb) & m
	case OpBAnd:
		return a & b
	case OpBOr:
		return a | b
	case OpBXor:
		return a ^ b
	case OpShl:
		if b >= uint64(w) {
			return 0
		}
		return (a << b) & m
	case OpLShr:
		if b >= uint64(w) {
			return 0
		}
		return a >> b
	case OpAShr:
		sa := sext64(a, w)
		if b >= uint64(w) {
			if sa < 0 {
				return m
			}
			return 0
		}
		return uint64(sa>>b) & m
	}
	panic("evalBin")
}

func evalCmp(op Op, a, b uint64, w int) bool {
	switch op {
	case OpULt:
		return a < b
	case OpULe:
		return a <= b
	case OpSLt:
		return sext64(a, w) < sext64(b, w)
	case OpSLe:
		return sext64(a, w) <= sext64(b, w)
	}
	panic("evalCmp")
}

// ---------------------------------------------------------------------
// Evaluation under a total assignment.

type ArrVal struct {
	m   map[uint64]uint8
	def uint8
	str string // if non-empty semantics: bytes of str then zeros (m==nil)
	isS bool
}

func (a *ArrVal) get(i uint64) uint8 {
	if a.isS {
		if i < uint64(len(a.str)) {
			return a.str[i]
		}
		return 0
	}
	if v, ok := a.m[i]; ok {
		return v
	}
	return a.def
}

type Model struct {
	Scalars map[string]uint64
	Arrays  map[string]map[uint64]uint8
}

func NewModel() *Model {
	return &Model{Scalars: map[string]uint64{}, Arrays: map[string]map[uint64]uint8{}}
}

type evalCtx struct {
	m    *Model
	memo map[int]uint64
	arrs map[int]*ArrVal
}

func newEval(m *Model) *evalCtx {
	return &evalCtx{m: m, memo: map[int]uint64{}, arrs: map[int]*ArrVal{}}
}

func (e *evalCtx) arr(t *Term) *ArrVal {
	if a, ok := e.arrs[t.id]; ok {
		return a
	}
	var r *ArrVal
	switch t.op {
	case OpVar:
		mm := e.m.Arrays[t.name]
		if mm == nil {
			mm = map[uint64]uint8{}
		}
		r = &ArrVal{m: mm}
	case OpConstArr:
		r = &ArrVal{m: map[uint64]uint8{}, def: uint8(t.val)}
	case OpStrArr:
		r = &ArrVal{isS: true, str: t.name}
	case OpStore:
		// iterative to avoid deep recursion on long store chains
		chain := []*Term{}
		cur := t
		var base *ArrVal
		for cur.op == OpStore {
			if a, ok := e.arrs[cur.id]; ok {
				base = a
				break
			}
			chain = append(chain, cur)
			cur = cur.args[0]
		}
		if base == nil {
			base = e.arr(cur)
		}
		// materialise copy
		nm := map[uint64]uint8{}
		nr := &ArrVal{m: nm, def: base.def}
		if base.isS {
			for i := 0; i < len(base.str); i++ {
				nm[uint64(i)] = base.str[i]
			}
		} else {
			for k, v := range base.m {
				nm[k] = v
			}
		}
		for i := len(chain) - 1; i >= 0; i-- {
			st := chain[i]
			nm[e.eval(st.args[1])] = uint8(e.eval(st.args[2]))
		}
		r = nr
	case OpIte:
		if e.eval(t.args[0]) != 0 {
			r = e.arr(t.args[1])
		} else {
			r = e.arr(t.args[2])
		}
	default:
		panic(fmt.Sprintf("arr eval op %d", t.op))
	}
	e.arrs[t.id] = r
	return r
}

func (e *evalCtx) eval(t *Term) uint64 {
	if t.op == OpConst {
		return t.val
	}
	if v, ok := e.memo[t.id]; ok {
		return v
	}
	var r uint64
	w := t.sort.W
	switch t.op {
	case OpVar:
		r = e.m.Scalars[t.name] & func() uint64 {
			if t.sort.K == SBool {
				return 1
			}
			return mask(w)
		}()
	case OpNot:
		r = 1 - e.eval(t.args[0])
	case OpAnd:
		if e.eval(t.args[0]) != 0 && e.eval(t.args[1]) != 0 {
			r = 1
		}
	case OpOr:
		if e.eval(t.args[0]) != 0 || e.eval(t.args[1]) != 0 {
			r = 1
		}
	case OpIte:
		if e.eval(t.args[0]) != 0 {
			r = e.eval(t.args[1])
		} else {
			r = e.eval(t.args[2])
		}
	case OpEq:
		if t.args[0].sort.K == SArr {
			panic("array equality unsupported in evaluator")
		}
		if e.eval(t.args[0]) == e.eval(t.args[1]) {
			r = 1
		}
	case OpAdd, OpSub, OpMul, OpUDiv, OpURem, OpSDiv, OpSRem, OpBAnd, OpBOr, OpBXor, OpShl, OpLShr, OpAShr:
		r = evalBin(t.op, e.eval(t.args[0]), e.eval(t.args[1]), w)
	case OpBNot:
		r = ^e.eval(t.args[0]) & mask(w)
	case OpNeg:
		r = (-e.eval(t.args[0])) & mask(w)
	case OpULt, OpULe, OpSLt, OpSLe:
		if evalCmp(t.op, e.eval(t.args[0]), e.eval(t.args[1]), t.args[0].sort.W) {
			r = 1
		}
	case OpConcat:
		r = (e.eval(t.args[0])<<uint(t.args[1].sort.W) | e.eval(t.args[1])) & mask(w)
	case OpExtract:
		r = (e.eval(t.args[0]) >> uint(t.lo)) & mask(w)
	case OpZExt:
		r = e.eval(t.args[0])
	case OpSExt:
		r = uint64(sext64(e.eval(t.args[0]), t.args[0].sort.W)) & mask(w)
	case OpSelect:
		r = uint64(e.arr(t.args[0]).get(e.eval(t.args[1])))
	default:
		panic(fmt.Sprintf("eval op %d", t.op))
	}
	e.memo[t.id] = r
	return r
}

// ---------------------------------------------------------------------
// SMT-LIB printing

func bvlit(v uint64, w int) string {
	if w%4 == 0 {
		return fmt.Sprintf("#x%0*x", w/4, v&mask(w))
	}
	return fmt.Sprintf("(_ bv%d %d)", v&mask(w), w)
}

var opNames = map[Op]string{
	OpNot: "not", OpAnd: "and", OpOr: "or", OpIte: "ite", OpEq: "=",
	OpAdd: "bvadd", OpSub: "bvsub", OpMul: "bvmul", OpUDiv: "bvudiv", OpURem: "bvurem",
	OpSDiv: "bvsdiv", OpSRem: "bvsrem", OpBAnd: "bvand", OpBOr: "bvor", OpBXor: "bvxor",
	OpBNot: "bvnot", OpNeg: "bvneg", OpShl: "bvshl", OpLShr: "bvlshr", OpAShr: "bvashr",
	OpULt: "bvult", OpULe: "bvule", OpSLt: "bvslt", OpSLe: "bvsle", OpConcat: "concat",
	OpSelect: "select", OpStore: "store",
}

func smtName(t *Term) string {
	if t.op == OpVar {
		return t.name
	}
	return fmt.Sprintf("t%d", t.id)
}

// smtRef returns how to refer to t from a parent expression.
func smtRef(t *Term) string {
	switch t.op {
	case OpConst:
		if t.sort.K == SBool {
			if t.val != 0 {
				return "true"
			}
			return "false"
		}
		return bvlit(t.val, t.sort.W)
	case OpVar:
		return t.name
	}
	return smtName(t)
}

// smtBody returns the defining expression of a non-leaf term.
func smtBody(t *Term) string {
	switch t.op {
	case OpConstArr:
		return fmt.Sprintf("((as const (Array (_ BitVec 64) (_ BitVec 8))) %s)", bvlit(t.val, 8))
	case OpStrArr:
		var sb strings.Builder
		n := len(t.name)
		for i := 0; i < n; i++ {
			sb.WriteString("(store ")
		}
		sb.WriteString("((as const (Array (_ BitVec 64) (_ BitVec 8))) #x00)")
		for i := n - 1; i >= 0; i-- {
			// innermost store first: order irrelevant (distinct indices)
			fmt.Fprintf(&sb, " %s %s)", bvlit(uint64(i), 64), bvlit(uint64(t.name[i]), 8))
		}
		return sb.String()
	case OpExtract:
		return fmt.Sprintf("((_ extract %d %d) %s)", t.hi, t.lo, smtRef(t.args[0]))
	case OpZExt:
		return fmt.Sprintf("((_ zero_extend %d) %s)", t.sort.W-t.args[0].sort.W, smtRef(t.args[0]))
	case OpSExt:
		return fmt.Sprintf("((_ sign_extend %d) %s)", t.sort.W-t.args[0].sort.W, smtRef(t.args[0]))
	}
	name, ok := opNames[t.op]
	if !ok {
		panic(fmt.Sprintf("smtBody op %d", t.op))
	}
	var sb strings.Builder
	sb.WriteString("(")
	sb.WriteString(name)
	for _, a := range t.args {
		sb.WriteString(" ")
		sb.WriteString(smtRef(a))
	}
	sb.WriteString(")")
	return sb.String()
}

// String renders a term fully inlined (for diagnostics; may be large).
func (t *Term) String() string {
	var sb strings.Builder
	var rec func(t *Term, d int)
	rec = func(t *Term, d int) {
		if d > 6 {
			sb.WriteString("…")
			return
		}
		switch t.op {
		case OpConst, OpVar:
			sb.WriteString(smtRef(t))
			return
		case OpConstArr:
			fmt.Fprintf(&sb, "const[%d]", t.val)
			return
		case OpStrArr:
			fmt.Fprintf(&sb, "str%q", t.name)
			return
		case OpExtract:
			fmt.Fprintf(&sb, "(extract %d %d ", t.hi, t.lo)
			rec(t.args[0], d+1)
			sb.WriteString(")")
			return
		case OpZExt:
			fmt.Fprintf(&sb, "(zext%d ", t.sort.W)
			rec(t.args[0], d+1)
			sb.WriteString(")")
			return
		case OpSExt:
			fmt.Fprintf(&sb, "(sext%d ", t.sort.W)
			rec(t.args[0], d+1)
			sb.WriteString(")")
			return
		}
		sb.WriteString("(")
		sb.WriteString(opNames[t.op])
		for _, a := range t.args {
			sb.WriteString(" ")
			rec(a, d+1)
		}
		sb.WriteString(")")
	}
	rec(t, 0)
	return sb.String()
}
