package main

import (
	"fmt"
	"go/types"

	"golang.org/x/tools/go/ssa"
)

// Value is the engine's representation of a Go value.
type Value interface{}

type BVv struct{ T *Term }   // integers of any width
type Boolv struct{ T *Term } // booleans

// Ptrv is a pointer. Exactly one of Cell / Bobj is set for non-nil pointers.
type Ptrv struct {
	Cell *Cell
	Bobj *ByteObj // pointer to a single byte inside a byte object
	Idx  *Term
}

func (p Ptrv) IsNil() bool { return p.Cell == nil && p.Bobj == nil }

// ByteObj is the backing store of []byte / [N]byte / data of strings created
// from them: an SMT array plus a (possibly symbolic) size.
type ByteObj struct {
	id  int
	arr *Term
	n   *Term // size of the backing array (BV64)
	max int   // concrete upper bound on n (maxInt if unknown)
}

// BytesV is a []byte (or []uint8-underlying) slice value.
type BytesV struct {
	Obj           *ByteObj // nil => nil slice
	Off, Len, Cap *Term    // BV64
}

// StrV is an immutable string: bytes arr[off..off+len).
type StrV struct {
	Arr *Term
	Off *Term
	Len *Term
	Max int // concrete upper bound on Len
}

// SliceV is a slice of non-byte elements with concrete geometry.
type SliceV struct {
	Back          *Backing // nil => nil slice
	Off, Len, Cap int
}

type Backing struct {
	id    int
	cells []*Cell
}

type StructV struct{ F []Value }
type ArrayV struct{ E []Value }
type ByteArrV struct {
	Arr *Term
	N   int
}
type IfaceV struct {
	T types.Type // nil => nil interface
	V Value
}
type MapV struct{ M *MapObj } // M==nil => nil map
type MapObj struct {
	id      int
	keys    []Value
	vals    []Value
	keyType types.Type
	valType types.Type
}
type FuncV struct {
	Fn       *ssa.Function // nil => nil func
	Bindings []Value
	// bound method on interface value / builtin not needed
}
type ChanV struct{ C *ChanObj }
type TupleV []Value
type UnsupV struct{ Why string }

// reflect.Value model
type ReflectV struct {
	T types.Type
	V Value
}

// map/string range iterator
type IterV struct {
	m    *MapObj
	keys []Value
	vals []Value
	str  *StrV
	pos  int
}

// Cell is an addressable memory location (a tree for aggregates).
type Cell struct {
	id     int
	typ    types.Type
	v      Value
	fields []*Cell
	elems  []*Cell
	bobj   *ByteObj
	// parent linkage for sync-object identity is not needed: cell ptr is identity
}

const maxInt = int(^uint(0) >> 1)

func isByteType(t types.Type) bool {
	b, ok := t.Underlying().(*types.Basic)
	return ok && (b.Kind() == types.Uint8 || b.Kind() == types.Byte)
}

func intWidth(b *types.Basic) (w int, signed bool, ok bool) {
	switch b.Kind() {
	case types.Int, types.UntypedInt:
		return 64, true, true
	case types.Int8:
		return 8, true, true
	case types.Int16:
		return 16, true, true
	case types.Int32, types.UntypedRune:
		return 32, true, true
	case types.Int64:
		return 64, true, true
	case types.Uint, types.Uintptr:
		return 64, false, true
	case types.Uint8:
		return 8, false, true
	case types.Uint16:
		return 16, false, true
	case types.Uint32:
		return 32, false, true
	case types.Uint64:
		return 64, false, true
	case types.UnsafePointer:
		return 64, false, true
	}
	return 0, false, false
}

func typeIntWidth(t types.Type) (int, bool, bool) {
	if b, ok := t.Underlying().(*types.Basic); ok {
		return intWidth(b)
	}
	return 0, false, false
}

func (in *Interp) newByteObj(arr *Term, n *Term, max int) *ByteObj {
	in.objCount++
	return &ByteObj{id: in.objCount, arr: arr, n: n, max: max}
}

func (in *Interp) newCell(t types.Type) *Cell {
	in.objCount++
	c := &Cell{id: in.objCount, typ: t}
	switch u := t.Underlying().(type) {
	case *types.Struct:
		c.fields = make([]*Cell, u.NumFields())
		for i := 0; i < u.NumFields(); i++ {
			c.fields[i] = in.newCell(u.Field(i).Type())
		}
	case *types.Array:
		n := int(u.Len())
		if isByteType(u.Elem()) {
			c.bobj = in.newByteObj(in.ts.ConstArr(0), in.ts.BV(uint64(n), 64), n)
		} else {
			if n > 4096 {
				panic(abortf("UNSUPPORTED", "array of %d non-byte elements", n))
			}
			c.elems = make([]*Cell, n)
			for i := 0; i < n; i++ {
				c.elems[i] = in.newCell(u.Elem())
			}
		}
	default:
		c.v = in.zero(t)
	}
	return c
}

func (in *Interp) zero(t types.Type) Value {
	switch u := t.Underlying().(type) {
	case *types.Basic:
		if w, _, ok := intWidth(u); ok {
			return BVv{in.ts.BV(0, w)}
		}
		switch u.Kind() {
		case types.Bool, types.UntypedBool:
			return Boolv{in.ts.False}
		case types.String, types.UntypedString:
			return in.constStr("")
		case types.UntypedNil:
			return IfaceV{}
		case types.Float32, types.Float64, types.UntypedFloat:
			return FloatV{0}
		}
		return UnsupV{"basic " + u.String()}
	case *types.Pointer:
		return Ptrv{}
	case *types.Slice:
		if isByteType(u.Elem()) {
			z := in.ts.BV(0, 64)
			return BytesV{nil, z, z, z}
		}
		return SliceV{}
	case *types.Map:
		return MapV{}
	case *types.Chan:
		return ChanV{}
	case *types.Signature:
		return FuncV{}
	case *types.Interface:
		return IfaceV{}
	case *types.Struct:
		f := make([]Value, u.NumFields())
		for i := range f {
			f[i] = in.zero(u.Field(i).Type())
		}
		return StructV{f}
	case *types.Array:
		n := int(u.Len())
		if isByteType(u.Elem()) {
			return ByteArrV{in.ts.ConstArr(0), n}
		}
		e := make([]Value, n)
		for i := range e {
			e[i] = in.zero(u.Elem())
		}
		return ArrayV{e}
	case *types.Tuple:
		tv := make(TupleV, u.Len())
		for i := range tv {
			tv[i] = in.zero(u.At(i).Type())
		}
		return tv
	}
	return UnsupV{"zero of " + t.String()}
}

// FloatV holds a concrete float (only concrete floats are supported).
type FloatV struct{ F float64 }

func (in *Interp) constStr(s string) StrV {
	return StrV{Arr: in.ts.StrArr(s), Off: in.ts.BV(0, 64), Len: in.ts.BV(uint64(len(s)), 64), Max: len(s)}
}

func (in *Interp) load(c *Cell) Value {
	switch {
	case c.fields != nil:
		f := make([]Value, len(c.fields))
		for i, fc := range c.fields {
			f[i] = in.load(fc)
		}
		return StructV{f}
	case c.elems != nil:
		e := make([]Value, len(c.elems))
		for i, ec := range c.elems {
			e[i] = in.load(ec)
		}
		return ArrayV{e}
	case c.bobj != nil:
		return ByteArrV{c.bobj.arr, c.bobj.max}
	}
	if c.v == nil {
		// struct{}{} / zero-length arrays
		switch u := c.typ.Underlying().(type) {
		case *types.Struct:
			return StructV{}
		case *types.Array:
			_ = u
			return ArrayV{}
		}
	}
	return c.v
}

func (in *Interp) store(c *Cell, v Value) {
	switch {
	case c.fields != nil:
		sv, ok := v.(StructV)
		if !ok {
			panic(abortf("INTERNAL", "store non-struct %T into struct cell %v", v, c.typ))
		}
		for i, fc := range c.fields {
			in.store(fc, sv.F[i])
		}
	case c.elems != nil:
		av, ok := v.(ArrayV)
		if !ok {
			panic(abortf("INTERNAL", "store non-array %T into array cell", v))
		}
		for i, ec := range c.elems {
			in.store(ec, av.E[i])
		}
	case c.bobj != nil:
		bv, ok := v.(ByteArrV)
		if !ok {
			panic(abortf("INTERNAL", "store non-bytearray %T into byte array cell", v))
		}
		c.bobj.arr = bv.Arr
	default:
		if _, ok := c.typ.Underlying().(*types.Struct); ok {
			return // empty struct
		}
		c.v = v
	}
}

// ---------------------------------------------------------------------

type Abort struct {
	Kind string // UNSUPPORTED, UNMODELLED, BOUND-EXCEEDED, INTERNAL, INFEASIBLE, INCONCLUSIVE
	Msg  string
}

func (a *Abort) Error() string { return a.Kind + ": " + a.Msg }

func abortf(kind, f string, args ...interface{}) *Abort {
	return &Abort{Kind: kind, Msg: fmt.Sprintf(f, args...)}
}
