package main

import (
	"fmt"
	"go/types"
	"strconv"
	"strings"

	"golang.org/x/tools/go/ssa"
)

var intrinsics map[string]Intrinsic

func init() {
	intrinsics = map[string]Intrinsic{
		"(*sync.Mutex).Lock":       iLock,
		"(*sync.Mutex).Unlock":     iUnlock,
		"(*sync.Mutex).TryLock":    iTryLock,
		"(*sync.RWMutex).Lock":     iLock,
		"(*sync.RWMutex).Unlock":   iUnlock,
		"(*sync.RWMutex).RLock":    iRLock,
		"(*sync.RWMutex).RUnlock":  iRUnlock,
		"(*sync.WaitGroup).Add":    iWgAdd,
		"(*sync.WaitGroup).Done":   iWgDone,
		"(*sync.WaitGroup).Wait":   iWgWait,
		"(*sync.Once).Do":          iOnceDo,
		"sync/atomic.AddUint32":    iAtomicAdd,
		"sync/atomic.AddInt32":     iAtomicAdd,
		"sync/atomic.AddUint64":    iAtomicAdd,
		"sync/atomic.AddInt64":     iAtomicAdd,
		"sync/atomic.LoadUint32":   iAtomicLoad,
		"sync/atomic.StoreUint32":  iAtomicStore,
		"fmt.Errorf":               iErrorf,
		"fmt.Sprintf":              iSprintf,
		"fmt.Sprint":               iSprintf,
		"fmt.Fprintf":              iFprintf,
		"fmt.Fprintln":             iFprintf,
		"fmt.Printf":               iFprintf,
		"fmt.Println":              iFprintf,
		"strconv.Itoa":             iItoa,
		"strconv.FormatInt":        iItoa,
		"strconv.FormatUint":       iItoa,
		"strconv.Quote":            iOpaqueStr,
		"(syscall.Errno).Error":    iOpaqueStr,
		"(time.Time).Format":       iOpaqueStr,
		"(time.Time).String":       iOpaqueStr,
		"(time.Month).String":      iOpaqueStr,
		"strings.ToLower":          iToLower,
		"reflect.ValueOf":          iReflectValueOf,
		"(reflect.Value).Kind":     iReflectKind,
		"(reflect.Value).NumField": iReflectNumField,
		"(reflect.Value).Field":    iReflectField,
		"(reflect.Value).Interface": iReflectInterface,
		"(reflect.Value).Len":      iReflectLen,
		"(reflect.Value).Index":    iReflectIndex,
		"time.Now":                 iTimeNow,
		"time.Sleep":               iNop,
		"runtime.Gosched":          iNop,
		"runtime.KeepAlive":        iNop,
		"internal/bytealg.IndexByteString": iIndexByteString,
		"internal/bytealg.IndexByte":       iIndexByteString,
		"internal/bytealg.Equal":           iBytesEqual,
		"bytes.Equal":                      iBytesEqual,
		"(*io/ioutil.discard).Write": nil,
	}
	delete(intrinsics, "(*io/ioutil.discard).Write")
}

func iNop(in *Interp, th *Thread, args []Value, fn *ssa.Function) (Value, callStatus) {
	return nil, csDone
}

// ---- sync ----

func iLock(in *Interp, th *Thread, args []Value, fn *ssa.Function) (Value, callStatus) {
	s := in.syncOf(args[0].(Ptrv))
	if s.locked || s.readers > 0 {
		panic(&blockedErr{th})
	}
	in.touch(s.id)
	s.locked = true
	return nil, csDone
}

func iTryLock(in *Interp, th *Thread, args []Value, fn *ssa.Function) (Value, callStatus) {
	s := in.syncOf(args[0].(Ptrv))
	in.touch(s.id)
	if s.locked || s.readers > 0 {
		return Boolv{in.ts.False}, csDone
	}
	s.locked = true
	return Boolv{in.ts.True}, csDone
}

func iUnlock(in *Interp, th *Thread, args []Value, fn *ssa.Function) (Value, callStatus) {
	s := in.syncOf(args[0].(Ptrv))
	in.touch(s.id)
	if !s.locked {
		in.startPanic(th, IfaceV{T: types.Typ[types.String], V: in.constStr("sync: unlock of unlocked mutex")}, "fatal: unlock of unlocked mutex")
		return nil, csPanicked
	}
	s.locked = false
	return nil, csDone
}

func iRLock(in *Interp, th *Thread, args []Value, fn *ssa.Function) (Value, callStatus) {
	s := in.syncOf(args[0].(Ptrv))
	if s.locked {
		panic(&blockedErr{th})
	}
	in.touchRead(s.id)
	s.readers++
	return nil, csDone
}

func iRUnlock(in *Interp, th *Thread, args []Value, fn *ssa.Function) (Value, callStatus) {
	s := in.syncOf(args[0].(Ptrv))
	in.touchRead(s.id)
	if s.readers <= 0 {
		in.startPanic(th, IfaceV{T: types.Typ[types.String], V: in.constStr("sync: RUnlock of unlocked RWMutex")}, "fatal: RUnlock of unlocked RWMutex")
		return nil, csPanicked
	}
	s.readers--
	return nil, csDone
}

func iWgAdd(in *Interp, th *Thread, args []Value, fn *ssa.Function) (Value, callStatus) {
	s := in.syncOf(args[0].(Ptrv))
	// Add/Done commute with each other; only Wait (write mode) observes the counter
	in.touchRead(s.id)
	d := args[1].(BVv).T
	if !d.IsConst() {
		panic(abortf("UNSUPPORTED", "WaitGroup.Add with symbolic delta"))
	}
	s.count += sext64(d.val, d.sort.W)
	if s.count < 0 {
		in.startPanic(th, IfaceV{T: types.Typ[types.String], V: in.constStr("sync: negative WaitGroup counter")}, "panic: negative WaitGroup counter")
		return nil, csPanicked
	}
	return nil, csDone
}

func iWgDone(in *Interp, th *Thread, args []Value, fn *ssa.Function) (Value, callStatus) {
	s := in.syncOf(args[0].(Ptrv))
	in.touchRead(s.id)
	s.count--
	if s.count < 0 {
		in.startPanic(th, IfaceV{T: types.Typ[types.String], V: in.constStr("sync: negative WaitGroup counter")}, "panic: negative WaitGroup counter")
		return nil, csPanicked
	}
	return nil, csDone
}

func iWgWait(in *Interp, th *Thread, args []Value, fn *ssa.Function) (Value, callStatus) {
	s := in.syncOf(args[0].(Ptrv))
	if s.count != 0 {
		panic(&blockedErr{th})
	}
	in.touch(s.id)
	return nil, csDone
}

func iOnceDo(in *Interp, th *Thread, args []Value, fn *ssa.Function) (Value, callStatus) {
	s := in.syncOf(args[0].(Ptrv))
	in.touch(s.id)
	if s.done {
		return nil, csDone
	}
	s.done = true
	return TailCall{Fn: args[1], Args: nil}, csTail
}

func iAtomicAdd(in *Interp, th *Thread, args []Value, fn *ssa.Function) (Value, callStatus) {
	p := args[0].(Ptrv)
	if p.Cell != nil {
		in.touch(p.Cell.id)
	}
	v, ok := in.loadPtr(th, p)
	if !ok {
		return nil, csPanicked
	}
	nv := BVv{in.ts.Add(v.(BVv).T, args[1].(BVv).T)}
	in.storePtr(th, p, nv)
	return nv, csDone
}

func iAtomicLoad(in *Interp, th *Thread, args []Value, fn *ssa.Function) (Value, callStatus) {
	p := args[0].(Ptrv)
	if p.Cell != nil {
		in.touch(p.Cell.id)
	}
	v, ok := in.loadPtr(th, p)
	if !ok {
		return nil, csPanicked
	}
	return v, csDone
}

func iAtomicStore(in *Interp, th *Thread, args []Value, fn *ssa.Function) (Value, callStatus) {
	p := args[0].(Ptrv)
	if p.Cell != nil {
		in.touch(p.Cell.id)
	}
	if !in.storePtr(th, p, args[1]) {
		return nil, csPanicked
	}
	return nil, csDone
}

// ---- fmt / strconv ----

func (in *Interp) opaqueString(tag string) StrV {
	max := in.cfg.OpaqueMax
	name := in.freshName("opq")
	arr := in.ts.Var(name+"_a", ArrSort)
	ln := in.ts.Var(name+"_n", BVSort(64))
	in.nondets = append(in.nondets, NondetRec{Kind: "string", Name: "opaque:" + tag, Max: max, Arr: arr, Len: ln})
	in.arrBound["len:"+ln.name] = max
	in.addConstraint(in.ts.ULe(ln, in.bv64(max)))
	return StrV{Arr: arr, Off: in.bv64(0), Len: ln, Max: max}
}

// variadic ...any arrives as a SliceV of interface cells
func (in *Interp) variadicArgs(v Value) []Value {
	sv, ok := v.(SliceV)
	if !ok || sv.Back == nil {
		return nil
	}
	out := make([]Value, sv.Len)
	for i := 0; i < sv.Len; i++ {
		out[i] = in.load(sv.Back.cells[sv.Off+i])
	}
	return out
}

// nativeArgs converts engine values into Go values if they are concrete
// basic values without methods.
func (in *Interp) nativeArgs(vals []Value) ([]interface{}, bool) {
	out := make([]interface{}, len(vals))
	for i, v := range vals {
		iv, ok := v.(IfaceV)
		if !ok {
			return nil, false
		}
		if iv.T == nil {
			out[i] = nil
			continue
		}
		if _, named := iv.T.(*types.Named); named {
			return nil, false
		}
		switch x := iv.V.(type) {
		case BVv:
			if !x.T.IsConst() {
				return nil, false
			}
			_, signed, _ := typeIntWidth(iv.T)
			if signed {
				out[i] = sext64(x.T.val, x.T.sort.W)
			} else {
				out[i] = x.T.val
			}
		case StrV:
			s, ok := in.strConcrete(x)
			if !ok {
				return nil, false
			}
			out[i] = s
		case Boolv:
			if !x.T.IsConst() {
				return nil, false
			}
			out[i] = x.T.val != 0
		default:
			return nil, false
		}
	}
	return out, true
}

func (in *Interp) formatString(format Value, rest Value, tag string) StrV {
	if f, ok := format.(StrV); ok {
		if fs, ok := in.strConcrete(f); ok {
			if na, ok := in.nativeArgs(in.variadicArgs(rest)); ok {
				return in.constStr(fmt.Sprintf(fs, na...))
			}
		}
	}
	return in.opaqueString(tag)
}

func iSprintf(in *Interp, th *Thread, args []Value, fn *ssa.Function) (Value, callStatus) {
	if fn.Name() == "Sprint" {
		return in.opaqueString("Sprint"), csDone
	}
	return in.formatString(args[0], args[1], "Sprintf"), csDone
}

func iFprintf(in *Interp, th *Thread, args []Value, fn *ssa.Function) (Value, callStatus) {
	// output formatting is never the subject of a claim: no effect
	return TupleV{BVv{in.bv64(0)}, IfaceV{}}, csDone
}

func iOpaqueStr(in *Interp, th *Thread, args []Value, fn *ssa.Function) (Value, callStatus) {
	// deterministic per (function, integer arguments): the same error value
	// formats to the same text
	key := fn.String()
	for _, a := range args {
		if bv, ok := a.(BVv); ok {
			key += fmt.Sprintf(":%d", bv.T.id)
		} else {
			key = ""
			break
		}
	}
	if key != "" {
		if v, ok := in.opaques[key]; ok {
			return v, csDone
		}
	}
	v := in.opaqueString(fn.Name())
	if key != "" {
		in.opaques[key] = v
	}
	return v, csDone
}

func (in *Interp) namedType(pkg, name string) types.Type {
	p := in.P.pkgs[pkg]
	if p == nil {
		panic(abortf("INTERNAL", "package %s not loaded", pkg))
	}
	t := p.Type(name)
	if t == nil {
		panic(abortf("INTERNAL", "type %s.%s not found", pkg, name))
	}
	return t.Type()
}

func iErrorf(in *Interp, th *Thread, args []Value, fn *ssa.Function) (Value, callStatus) {
	format, _ := in.strConcrete(args[0].(StrV))
	vals := in.variadicArgs(args[1])
	// locate %w operands
	var wrapped []Value
	argi := 0
	for i := 0; i < len(format); i++ {
		if format[i] != '%' {
			continue
		}
		i++
		for i < len(format) && strings.IndexByte("+-# 0123456789.[]*", format[i]) >= 0 {
			i++
		}
		if i >= len(format) {
			break
		}
		if format[i] == '%' {
			continue
		}
		if format[i] == 'w' && argi < len(vals) {
			wrapped = append(wrapped, vals[argi])
		}
		argi++
	}
	msg := in.formatString(args[0], args[1], "Errorf")
	switch len(wrapped) {
	case 0:
		t := in.namedType("errors", "errorString")
		c := in.newCell(t)
		in.store(c, StructV{[]Value{msg}})
		return IfaceV{T: types.NewPointer(t), V: Ptrv{Cell: c}}, csDone
	case 1:
		t := in.namedType("fmt", "wrapError")
		c := in.newCell(t)
		w := wrapped[0]
		if iv, ok := w.(IfaceV); ok {
			// must be an error; otherwise fmt stores nil
			errT := types.Universe.Lookup("error").Type().Underlying().(*types.Interface)
			if iv.T == nil || !types.Implements(iv.T, errT) {
				w = IfaceV{}
			}
		}
		in.store(c, StructV{[]Value{msg, w}})
		return IfaceV{T: types.NewPointer(t), V: Ptrv{Cell: c}}, csDone
	}
	panic(abortf("UNSUPPORTED", "fmt.Errorf with several %%w"))
}

func iItoa(in *Interp, th *Thread, args []Value, fn *ssa.Function) (Value, callStatus) {
	v := args[0].(BVv).T
	if v.IsConst() {
		switch fn.Name() {
		case "Itoa":
			return in.constStr(strconv.Itoa(int(int64(v.val)))), csDone
		case "FormatInt":
			if b := args[1].(BVv).T; b.IsConst() {
				return in.constStr(strconv.FormatInt(int64(v.val), int(b.val))), csDone
			}
		case "FormatUint":
			if b := args[1].(BVv).T; b.IsConst() {
				return in.constStr(strconv.FormatUint(v.val, int(b.val))), csDone
			}
		}
	}
	return in.opaqueString(fn.Name()), csDone
}

func iToLower(in *Interp, th *Thread, args []Value, fn *ssa.Function) (Value, callStatus) {
	if s, ok := in.strConcrete(args[0].(StrV)); ok {
		return in.constStr(strings.ToLower(s)), csDone
	}
	return in.opaqueString("ToLower"), csDone
}

func iTimeNow(in *Interp, th *Thread, args []Value, fn *ssa.Function) (Value, callStatus) {
	return in.zero(fn.Signature.Results().At(0).Type()), csDone
}

// IndexByteString(s string, c byte) int / IndexByte(b []byte, c byte) int
func iIndexByteString(in *Interp, th *Thread, args []Value, fn *ssa.Function) (Value, callStatus) {
	ts := in.ts
	var arr, off, ln *Term
	max := 0
	switch s := args[0].(type) {
	case StrV:
		arr, off, ln, max = s.Arr, s.Off, s.Len, s.Max
	case BytesV:
		if s.Obj == nil {
			return BVv{ts.BV(^uint64(0), 64)}, csDone
		}
		arr, off, ln, max = s.Obj.arr, s.Off, s.Len, s.Obj.max
	}
	c := args[1].(BVv).T
	if ln.IsConst() {
		max = int(ln.val)
	}
	if max > in.cfg.MaxBytes {
		in.boundExceeded("IndexByte over more than MaxBytes")
		max = in.cfg.MaxBytes
	}
	res := ts.BV(^uint64(0), 64)
	for k := max - 1; k >= 0; k-- {
		kk := in.bv64(k)
		hit := ts.And(ts.ULt(kk, ln), ts.Eq(ts.Select(arr, ts.Add(off, kk)), c))
		res = ts.Ite(hit, kk, res)
	}
	return BVv{res}, csDone
}

func iBytesEqual(in *Interp, th *Thread, args []Value, fn *ssa.Function) (Value, callStatus) {
	a, b := args[0].(BytesV), args[1].(BytesV)
	sa := StrV{Off: a.Off, Len: a.Len}
	sb := StrV{Off: b.Off, Len: b.Len}
	if a.Obj != nil {
		sa.Arr, sa.Max = a.Obj.arr, a.Obj.max
	} else {
		sa = in.constStr("")
	}
	if b.Obj != nil {
		sb.Arr, sb.Max = b.Obj.arr, b.Obj.max
	} else {
		sb = in.constStr("")
	}
	return Boolv{in.strEq(sa, sb)}, csDone
}

// ---- reflect (the six methods marshal() uses) ----

func iReflectValueOf(in *Interp, th *Thread, args []Value, fn *ssa.Function) (Value, callStatus) {
	iv := args[0].(IfaceV)
	return ReflectV{T: iv.T, V: iv.V}, csDone
}

func reflectKind(t types.Type) uint64 {
	if t == nil {
		return 0
	}
	switch u := t.Underlying().(type) {
	case *types.Basic:
		switch u.Kind() {
		case types.Bool:
			return 1
		case types.Int:
			return 2
		case types.Int8:
			return 3
		case types.Int16:
			return 4
		case types.Int32:
			return 5
		case types.Int64:
			return 6
		case types.Uint:
			return 7
		case types.Uint8:
			return 8
		case types.Uint16:
			return 9
		case types.Uint32:
			return 10
		case types.Uint64:
			return 11
		case types.Uintptr:
			return 12
		case types.Float32:
			return 13
		case types.Float64:
			return 14
		case types.String:
			return 24
		case types.UnsafePointer:
			return 26
		}
	case *types.Array:
		return 17
	case *types.Chan:
		return 18
	case *types.Signature:
		return 19
	case *types.Interface:
		return 20
	case *types.Map:
		return 21
	case *types.Pointer:
		return 22
	case *types.Slice:
		return 23
	case *types.Struct:
		return 25
	}
	return 0
}

func iReflectKind(in *Interp, th *Thread, args []Value, fn *ssa.Function) (Value, callStatus) {
	rv := args[0].(ReflectV)
	return BVv{in.ts.BV(reflectKind(rv.T), 64)}, csDone
}

func iReflectNumField(in *Interp, th *Thread, args []Value, fn *ssa.Function) (Value, callStatus) {
	rv := args[0].(ReflectV)
	st := rv.T.Underlying().(*types.Struct)
	return BVv{in.bv64(st.NumFields())}, csDone
}

func iReflectField(in *Interp, th *Thread, args []Value, fn *ssa.Function) (Value, callStatus) {
	rv := args[0].(ReflectV)
	st := rv.T.Underlying().(*types.Struct)
	i := args[1].(BVv).T
	if !i.IsConst() {
		panic(abortf("UNSUPPORTED", "reflect Field(symbolic)"))
	}
	return ReflectV{T: st.Field(int(i.val)).Type(), V: rv.V.(StructV).F[i.val]}, csDone
}

func iReflectInterface(in *Interp, th *Thread, args []Value, fn *ssa.Function) (Value, callStatus) {
	rv := args[0].(ReflectV)
	if _, ok := rv.T.Underlying().(*types.Interface); ok {
		return rv.V, csDone
	}
	return IfaceV{T: rv.T, V: rv.V}, csDone
}

func iReflectLen(in *Interp, th *Thread, args []Value, fn *ssa.Function) (Value, callStatus) {
	rv := args[0].(ReflectV)
	switch x := rv.V.(type) {
	case SliceV:
		return BVv{in.bv64(x.Len)}, csDone
	case BytesV:
		return BVv{x.Len}, csDone
	case StrV:
		return BVv{x.Len}, csDone
	}
	panic(abortf("UNSUPPORTED", "reflect Len on %T", rv.V))
}

func iReflectIndex(in *Interp, th *Thread, args []Value, fn *ssa.Function) (Value, callStatus) {
	rv := args[0].(ReflectV)
	i := args[1].(BVv).T
	switch x := rv.V.(type) {
	case SliceV:
		if !i.IsConst() {
			panic(abortf("UNSUPPORTED", "reflect Index(symbolic)"))
		}
		et := rv.T.Underlying().(*types.Slice).Elem()
		return ReflectV{T: et, V: in.load(x.Back.cells[x.Off+int(i.val)])}, csDone
	case BytesV:
		return ReflectV{T: types.Typ[types.Uint8], V: BVv{in.ts.Select(x.Obj.arr, in.ts.Add(x.Off, i))}}, csDone
	}
	panic(abortf("UNSUPPORTED", "reflect Index on %T", rv.V))
}
