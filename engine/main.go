package main

import (
	"encoding/json"
	"flag"
	"fmt"
	"go/ast"
	"os"
	"path/filepath"
	"regexp"
	"runtime/debug"
	"runtime/pprof"
	"sort"
	"strconv"
	"strings"
	"sync"
	"time"

	"golang.org/x/tools/go/packages"
	"golang.org/x/tools/go/ssa"
	"golang.org/x/tools/go/ssa/ssautil"
)

type EntrySpec struct {
	Name      string
	Fn        *ssa.Function
	Redirects map[string]string
	ConstOv   map[string][2]int64
	Cfg       Config
	Tier      string
	Solo      bool
	NoRedirect []string
	Samples   int // 0: the command line's value
}

type ViolOut struct {
	Kind    string      `json:"kind"`
	Label   string      `json:"label"`
	Site    string      `json:"site"`
	Count   int         `json:"count"`
	Witness string      `json:"witness"`
	Trace   []string    `json:"trace"`
	Nondet  []NondetOut `json:"nondet"`
	Emits   []EmitOut   `json:"emits"`
	Sched   []int       `json:"sched,omitempty"`
}

type SampleOut struct {
	Decs string `json:"decs,omitempty"`
	Nondet []NondetOut `json:"nondet"`
	Emits  []EmitOut   `json:"emits"`
	Sched  []int       `json:"sched,omitempty"`
	Witness string     `json:"witness,omitempty"`
}

type EntryResult struct {
	Name        string         `json:"name"`
	Paths       int            `json:"paths"`
	PathsOK     int            `json:"paths_ok"`
	Pruned      int            `json:"pruned"`
	Decisions   int            `json:"decisions"`
	Steps       int            `json:"steps"`
	Sat         int            `json:"sat"`
	Unsat       int            `json:"unsat"`
	Unknown     int            `json:"unknown"`
	SolverS     float64        `json:"solver_s"`
	WallS       float64        `json:"wall_s"`
	Violations  []*ViolOut     `json:"violations"`
	Inconcl     map[string]int `json:"inconclusive"`
	Reached     []string       `json:"reached"`
	Funcs       map[string]int `json:"functions"`
	Samples     []SampleOut    `json:"samples"`
	Bounds      map[string]int `json:"bounds"`
	RedirectsUsed []string     `json:"redirects"`
	EmitHist    map[string]int `json:"emit_hist,omitempty"`
}

func main() {
	if len(os.Args) < 2 {
		fmt.Fprintln(os.Stderr, "usage: gosmt run [flags]")
		os.Exit(2)
	}
	switch os.Args[1] {
	case "run":
		os.Exit(cmdRun(os.Args[2:]))
	default:
		fmt.Fprintln(os.Stderr, "unknown command")
		os.Exit(2)
	}
}

func cmdRun(args []string) int {
	fs := flag.NewFlagSet("run", flag.ExitOnError)
	repo := fs.String("repo", "/repo", "repository root")
	pkgPath := fs.String("pkg", "github.com/pkg/sftp", "import path of the package under test")
	hdir := fs.String("harness", "", "directory with harness files to overlay into the package dir")
	entryRe := fs.String("entry", ".*", "regexp selecting harness entry functions (vh_*)")
	out := fs.String("out", "", "output directory")
	workers := fs.Int("workers", 16, "parallel workers")
	solver := fs.String("solver", "z3", "z3 | z3-new | cvc5")
	timeout := fs.Int("timeout", 10000, "per-query timeout ms")
	tier := fs.String("tier", "quick", "quick | thorough")
	maxPaths := fs.Int("maxpaths", 200000, "max paths per entry")
	samples := fs.Int("samples", 3, "witness samples of completed paths per entry")
	maxTime := fs.Int("maxtime", 900, "max seconds per entry")
	verbose := fs.Bool("v", false, "verbose")
	cpuprof := fs.String("cpuprofile", "", "write cpu profile")
	fs.Parse(args)
	if *cpuprof != "" {
		f, _ := os.Create(*cpuprof)
		pprof.StartCPUProfile(f)
		defer pprof.StopCPUProfile()
	}

	t0 := time.Now()
	os.Setenv("PATH", "/opt/veriftools/go1.26.8/bin:"+os.Getenv("PATH"))
	for _, kv := range []string{"GOFLAGS=-mod=mod", "GOPROXY=off", "GOSUMDB=off", "GOTOOLCHAIN=local"} {
		p := strings.SplitN(kv, "=", 2)
		os.Setenv(p[0], p[1])
	}
	prog, err := loadProgram(*repo, *pkgPath, *hdir)
	if err != nil {
		fmt.Fprintln(os.Stderr, "load:", err)
		return 2
	}
	entries, err := findEntries(prog, *entryRe, *tier)
	if err != nil {
		fmt.Fprintln(os.Stderr, err)
		return 2
	}
	if len(entries) == 0 {
		fmt.Fprintln(os.Stderr, "no harness entries match")
		return 2
	}
	if *verbose {
		fmt.Fprintf(os.Stderr, "loaded in %.1fs, %d entries\n", time.Since(t0).Seconds(), len(entries))
	}
	os.MkdirAll(*out, 0o755)
	var results []*EntryResult
	// entries run one after another; parallelism is across paths
	pool := newPool(*workers, *solver, *timeout)
	defer pool.close()
	for _, e := range entries {
		r := runEntry(prog, e, pool, *maxPaths, *samples, *out, *verbose, time.Duration(*maxTime)*time.Second)
		results = append(results, r)
		if *verbose {
			fmt.Fprintf(os.Stderr, "%s: paths=%d ok=%d viol=%d inconcl=%d queries=%d wall=%.1fs\n", r.Name, r.Paths, r.PathsOK, len(r.Violations), len(r.Inconcl), r.Sat+r.Unsat+r.Unknown, r.WallS)
		}
	}
	f, err := os.Create(filepath.Join(*out, "result.json"))
	if err != nil {
		fmt.Fprintln(os.Stderr, err)
		return 2
	}
	enc := json.NewEncoder(f)
	enc.SetIndent("", " ")
	enc.Encode(map[string]interface{}{"entries": results, "solver": *solver, "tier": *tier, "load_s": time.Since(t0).Seconds()})
	f.Close()
	return 0
}

// ---------------------------------------------------------------------

type loaded struct {
	Program
	astFiles map[string]*ast.File // harness overlay files
	pkg      *packages.Package
}

func loadProgram(repo, pkgPath, hdir string) (*loaded, error) {
	overlay := map[string][]byte{}
	rel := strings.TrimPrefix(strings.TrimPrefix(pkgPath, "github.com/pkg/sftp"), "/")
	pkgDir := filepath.Join(repo, rel)
	var hfiles []string
	pkgName := map[string]string{"": "sftp", "internal/encoding/ssh/filexfer": "sshfx", "internal/encoding/ssh/filexfer/openssh": "openssh"}[rel]
	pkgClause := regexp.MustCompile(`(?m)^package \w+`)
	for _, hd := range strings.Split(hdir, ",") {
		if hd == "" {
			continue
		}
		var names []string
		if st, err := os.Stat(hd); err == nil && !st.IsDir() {
			names = []string{hd}
		} else {
			ents, err := os.ReadDir(hd)
			if err != nil {
				return nil, err
			}
			for _, e := range ents {
				if strings.HasSuffix(e.Name(), ".go") && !strings.HasSuffix(e.Name(), "_test.go") {
					names = append(names, filepath.Join(hd, e.Name()))
				}
			}
		}
		for _, fn := range names {
			b, err := os.ReadFile(fn)
			if err != nil {
				return nil, err
			}
			if pkgName != "" {
				b = pkgClause.ReplaceAll(b, []byte("package "+pkgName))
			}
			vp := filepath.Join(pkgDir, "zz_verif_"+filepath.Base(fn))
			overlay[vp] = b
			hfiles = append(hfiles, vp)
		}
	}
	cfg := &packages.Config{
		Mode:       packages.LoadAllSyntax,
		Dir:        repo,
		BuildFlags: []string{"-tags=verif"},
		Overlay:    overlay,
		Env:        append(os.Environ(), "PATH=/opt/veriftools/go1.26.8/bin:"+os.Getenv("PATH"), "GOFLAGS=-mod=mod", "GOPROXY=off", "GOSUMDB=off", "GOTOOLCHAIN=local"),
	}
	pkgs, err := packages.Load(cfg, pkgPath)
	if err != nil {
		return nil, err
	}
	if packages.PrintErrors(pkgs) > 0 {
		return nil, fmt.Errorf("package errors")
	}
	prog, spkgs := ssautil.AllPackages(pkgs, ssa.InstantiateGenerics)
	prog.Build()
	l := &loaded{}
	l.prog = prog
	l.pkgs = map[string]*ssa.Package{}
	for _, p := range prog.AllPackages() {
		l.pkgs[p.Pkg.Path()] = p
	}
	l.mainPkg = spkgs[0]
	l.pkg = pkgs[0]
	l.funcs = map[string]*ssa.Function{}
	for fn := range ssautil.AllFunctions(prog) {
		l.funcs[fn.String()] = fn
	}
	l.astFiles = map[string]*ast.File{}
	for i, f := range pkgs[0].Syntax {
		name := pkgs[0].CompiledGoFiles[i]
		for _, h := range hfiles {
			if name == h {
				l.astFiles[name] = f
			}
		}
	}
	return l, nil
}

var directiveRe = regexp.MustCompile(`^//verif:(\S+)\s*(.*)$`)

func parseDirectives(cg *ast.CommentGroup) [][2]string {
	var out [][2]string
	if cg == nil {
		return out
	}
	for _, c := range cg.List {
		if m := directiveRe.FindStringSubmatch(strings.TrimSpace(c.Text)); m != nil {
			out = append(out, [2]string{m[1], strings.TrimSpace(m[2])})
		}
	}
	return out
}

func defaultConfig() Config {
	return Config{MaxSteps: 2000000, MaxVisits: 64, MaxBytes: 64, MaxSchedOps: 2000, AllocA: 64, AllocB: 256*1024 + 4096, OpaqueMax: 3, CheckLeaks: true, Preempt: -1}
}

func findEntries(l *loaded, re string, tier string) ([]*EntrySpec, error) {
	rx, err := regexp.Compile(re)
	if err != nil {
		return nil, err
	}
	pkgPath := l.mainPkg.Pkg.Path()
	var out []*EntrySpec
	var files []string
	for name := range l.astFiles {
		files = append(files, name)
	}
	sort.Strings(files)
	fileLevel := func(f *ast.File) [][2]string {
		var dirs [][2]string
		attached := map[*ast.CommentGroup]bool{}
		for _, d := range f.Decls {
			if fd, ok := d.(*ast.FuncDecl); ok && fd.Doc != nil {
				attached[fd.Doc] = true
			}
		}
		for _, cg := range f.Comments {
			if !attached[cg] {
				dirs = append(dirs, parseDirectives(cg)...)
			}
		}
		return dirs
	}
	// directives in files named common*.go apply to every entry
	var globalDirs [][2]string
	for _, fname := range files {
		if strings.HasPrefix(filepath.Base(fname), "zz_verif_common") {
			globalDirs = append(globalDirs, fileLevel(l.astFiles[fname])...)
		}
	}
	for _, fname := range files {
		f := l.astFiles[fname]
		// file-level directives: comment groups not attached to declarations
		var fileDirs [][2]string
		fileDirs = append(fileDirs, globalDirs...)
		attached := map[*ast.CommentGroup]bool{}
		for _, d := range f.Decls {
			if fd, ok := d.(*ast.FuncDecl); ok && fd.Doc != nil {
				attached[fd.Doc] = true
			}
		}
		for _, cg := range f.Comments {
			if !attached[cg] {
				fileDirs = append(fileDirs, parseDirectives(cg)...)
			}
		}
		for _, d := range f.Decls {
			fd, ok := d.(*ast.FuncDecl)
			if !ok || fd.Recv != nil || !strings.HasPrefix(fd.Name.Name, "vh_") {
				continue
			}
			if !rx.MatchString(fd.Name.Name) {
				continue
			}
			fn := l.mainPkg.Func(fd.Name.Name)
			if fn == nil {
				continue
			}
			e := &EntrySpec{Name: fd.Name.Name, Fn: fn, Redirects: map[string]string{}, ConstOv: map[string][2]int64{}, Cfg: defaultConfig(), Tier: "quick"}
			dirs := append(append([][2]string{}, fileDirs...), parseDirectives(fd.Doc)...)
			for _, dv := range dirs {
				fields := strings.Fields(dv[1])
				switch dv[0] {
				case "redirect":
					if len(fields) != 2 {
						return nil, fmt.Errorf("%s: bad redirect %q", e.Name, dv[1])
					}
					tgt := fields[1]
					if !strings.Contains(tgt, ".") {
						tgt = pkgPath + "." + tgt
					}
					e.Redirects[fields[0]] = tgt
					for i, nr := range e.NoRedirect {
						if nr == fields[0] {
							e.NoRedirect = append(e.NoRedirect[:i], e.NoRedirect[i+1:]...)
							break
						}
					}
				case "noredirect":
					delete(e.Redirects, fields[0])
					e.NoRedirect = append(e.NoRedirect, fields[0])
				case "constoverride":
					a, _ := strconv.ParseInt(fields[1], 10, 64)
					b, _ := strconv.ParseInt(fields[2], 10, 64)
					name := fields[0]
					e.ConstOv[strings.ReplaceAll(name, "PKG", pkgPath)] = [2]int64{a, b}
				case "unwind":
					e.Cfg.MaxVisits, _ = strconv.Atoi(fields[0])
				case "maxbytes":
					e.Cfg.MaxBytes, _ = strconv.Atoi(fields[0])
				case "steps":
					e.Cfg.MaxSteps, _ = strconv.Atoi(fields[0])
				case "schedops":
					e.Cfg.MaxSchedOps, _ = strconv.Atoi(fields[0])
				case "opaquemax":
					e.Cfg.OpaqueMax, _ = strconv.Atoi(fields[0])
				case "alloc":
					e.Cfg.AllocA, _ = strconv.ParseInt(fields[0], 10, 64)
					e.Cfg.AllocB, _ = strconv.ParseInt(fields[1], 10, 64)
				case "atomic-invisible":
					e.Cfg.AtomicInvisible = true
				case "preempt":
					// preempt <quick> [<thorough>]
					e.Cfg.Preempt, _ = strconv.Atoi(fields[0])
					if len(fields) > 1 && tier == "thorough" {
						e.Cfg.Preempt, _ = strconv.Atoi(fields[1])
					}
				case "prune-unwind":
					e.Cfg.PruneUnwind = true
				case "samples":
					// samples <n>: number of completed paths whose inputs are replayed natively
					e.Samples, _ = strconv.Atoi(fields[0])
				case "noifconv":
					e.Cfg.NoIfConv = true
				case "nopor":
					e.Cfg.NoPOR = true
				case "noleakcheck":
					e.Cfg.CheckLeaks = false
				case "tier":
					e.Tier = fields[0]
				default:
					return nil, fmt.Errorf("%s: unknown directive %q", e.Name, dv[0])
				}
			}
			e.Cfg.Thorough = tier == "thorough"
			if e.Tier == "thorough" && tier != "thorough" {
				continue
			}
			if e.Tier == "manual" && tier != "manual" {
				continue
			}
			if e.Tier == "quickonly" && tier != "quick" {
				continue
			}
			out = append(out, e)
		}
	}
	sort.Slice(out, func(i, j int) bool { return out[i].Name < out[j].Name })
	return out, nil
}

// ---------------------------------------------------------------------

type pool struct {
	n       int
	solvers []*Solver
}

func newPool(n int, kind string, timeout int) *pool {
	p := &pool{n: n}
	for i := 0; i < n; i++ {
		s, err := NewSolver(kind, timeout)
		if err != nil {
			fmt.Fprintln(os.Stderr, "solver:", err)
			os.Exit(2)
		}
		p.solvers = append(p.solvers, s)
	}
	return p
}

func (p *pool) close() {
	for _, s := range p.solvers {
		s.Close()
	}
}

func runEntry(l *loaded, e *EntrySpec, pl *pool, maxPaths, nsamples int, outDir string, verbose bool, maxTime time.Duration) *EntryResult {
	if e.Samples > 0 && nsamples > 0 {
		nsamples = e.Samples
	}
	t0 := time.Now()
	P := &Program{prog: l.prog, pkgs: l.pkgs, funcs: l.funcs, mainPkg: l.mainPkg, redirects: map[string]string{}, constOv: e.ConstOv}
	// default redirects provided by the prelude
	pkgPath := l.mainPkg.Pkg.Path()
	for callee, tgt := range map[string]string{
		"errors.Is": "vErrorsIs", "errors.As": "vErrorsAs", "sort.Slice": "vSortSlice",
		"encoding/binary.Write": "vBinaryWrite", "encoding/binary.Read": "vBinaryRead",
		"context.Background": "vContextBackground", "context.WithCancel": "vContextWithCancel",
	} {
		if _, ok := l.funcs[pkgPath+"."+tgt]; ok {
			P.redirects[callee] = pkgPath + "." + tgt
		}
	}
	for k, v := range e.Redirects {
		P.redirects[k] = v
	}
	for _, k := range e.NoRedirect {
		delete(P.redirects, k)
	}
	res := &EntryResult{Name: e.Name, Inconcl: map[string]int{}, Funcs: map[string]int{}, Bounds: map[string]int{
		"max_bytes": e.Cfg.MaxBytes, "unwind": e.Cfg.MaxVisits, "max_steps": e.Cfg.MaxSteps, "opaque_string_max": e.Cfg.OpaqueMax, "max_sched_ops": e.Cfg.MaxSchedOps, "max_preemptions": e.Cfg.Preempt}}
	for k := range P.redirects {
		res.RedirectsUsed = append(res.RedirectsUsed, k+" -> "+P.redirects[k])
	}
	sort.Strings(res.RedirectsUsed)

	var mu sync.Mutex
	cond := sync.NewCond(&mu)
	stack := []WorkItem{{}}
	active := 0
	reached := map[string]bool{}
	viols := map[string]*ViolOut{}
	stopped := false
	solverBase := make([]SolverStats, pl.n)
	for i, s := range pl.solvers {
		solverBase[i] = s.Stats
	}

	var wg sync.WaitGroup
	for w := 0; w < pl.n; w++ {
		wg.Add(1)
		go func(w int) {
			defer wg.Done()
			sv := pl.solvers[w]
			for {
				mu.Lock()
				for len(stack) == 0 && active > 0 && !stopped {
					cond.Wait()
				}
				if stopped || (len(stack) == 0 && active == 0) {
					mu.Unlock()
					cond.Broadcast()
					return
				}
				item := stack[len(stack)-1]
				stack = stack[:len(stack)-1]
				active++
				mu.Unlock()

				cfg := e.Cfg
				pr := runPath(P, &cfg, sv, item, e.Fn)

				mu.Lock()
				active--
				res.Paths++
				res.Steps += pr.Steps
				res.Decisions += pr.Decisions
				for k := range pr.Reached {
					reached[k] = true
				}
				for k, v := range pr.Funcs {
					res.Funcs[k] += v
				}
				for _, m := range pr.Inconcl {
					res.Inconcl[m]++
				}
				switch pr.Status {
				case "ok":
					res.PathsOK++
					if os.Getenv("GOSMT_EMITHIST") != "" {
						if res.EmitHist == nil {
							res.EmitHist = map[string]int{}
						}
						k := ""
						for _, e := range pr.Emits {
							k += e.Label + "=" + e.Val + ";"
						}
						res.EmitHist[k]++
					}
					if pr.Nondet != nil {
						so := SampleOut{Nondet: pr.Nondet, Emits: pr.Emits, Sched: pr.Sched, Decs: pr.Decs}
						if len(res.Samples) < nsamples {
							res.Samples = append(res.Samples, so)
						} else if nsamples > 3 {
							// reservoir with a deterministic hash: the samples spread over the whole exploration
							h := uint64(res.PathsOK) * 0x9E3779B97F4A7C15
							h ^= h >> 29
							if j := int(h % uint64(res.PathsOK)); j < nsamples {
								res.Samples[j] = so
							}
						}
					}
				case "pruned":
					res.Pruned++
				case "abort":
					res.Inconcl[pr.Abort.Error()]++
				}
				for _, v := range pr.Violations {
					key := v.Kind + "|" + v.Label + "|" + v.Site
					// distinguish call sites: up to four innermost non-harness frames
					nfr := 0
					for _, fr := range v.Trace {
						if nfr >= 4 || strings.Contains(fr, ".vh_") {
							break
						}
						key += "|" + fr
						nfr++
					}
					if ex, ok := viols[key]; ok {
						ex.Count++
					} else {
						viols[key] = &ViolOut{Kind: v.Kind, Label: v.Label, Site: v.Site, Count: 1, Trace: v.Trace, Nondet: v.Nondet, Emits: v.Emits, Sched: v.Sched}
					}
				}
				stack = append(stack, pr.NewItems...)
				if time.Since(t0) > maxTime && !stopped {
					stopped = true
					res.Inconcl[fmt.Sprintf("BOUND-EXCEEDED: entry exceeded %v (paths so far %d, queue %d)", maxTime, res.Paths, len(stack))]++
				}
				if res.Paths >= maxPaths {
					stopped = true
					res.Inconcl[fmt.Sprintf("BOUND-EXCEEDED: more than %d paths", maxPaths)]++
				}
				mu.Unlock()
				cond.Broadcast()
			}
		}(w)
	}
	wg.Wait()
	for i, s := range pl.solvers {
		res.Sat += s.Stats.Sat - solverBase[i].Sat
		res.Unsat += s.Stats.Unsat - solverBase[i].Unsat
		res.Unknown += s.Stats.Unknown - solverBase[i].Unknown
		res.SolverS += (s.Stats.Time - solverBase[i].Time).Seconds()
	}
	for k := range reached {
		res.Reached = append(res.Reached, k)
	}
	sort.Strings(res.Reached)
	keys := make([]string, 0, len(viols))
	for k := range viols {
		keys = append(keys, k)
	}
	sort.Strings(keys)
	for i, k := range keys {
		v := viols[k]
		wf := filepath.Join(outDir, fmt.Sprintf("%s-v%d.witness.json", e.Name, i))
		writeWitness(wf, e.Name, v.Kind, v.Label, v.Site, v.Nondet, v.Emits, v.Sched)
		v.Witness = wf
		res.Violations = append(res.Violations, v)
	}
	for i := range res.Samples {
		wf := filepath.Join(outDir, fmt.Sprintf("%s-s%d.witness.json", e.Name, i))
		writeWitness(wf, e.Name, "sample", "", "", res.Samples[i].Nondet, res.Samples[i].Emits, res.Samples[i].Sched)
		res.Samples[i].Witness = wf
	}
	res.WallS = time.Since(t0).Seconds()
	return res
}

func writeWitness(path, harness, kind, label, site string, nd []NondetOut, em []EmitOut, sched []int) {
	f, err := os.Create(path)
	if err != nil {
		return
	}
	defer f.Close()
	enc := json.NewEncoder(f)
	enc.SetIndent("", " ")
	enc.Encode(map[string]interface{}{"harness": harness, "kind": kind, "label": label, "site": site, "nondet": nd, "emits": em, "sched": sched})
}

func runPath(P *Program, cfg *Config, sv *Solver, item WorkItem, entry *ssa.Function) (pr *PathResult) {
	in := NewInterp(P, cfg, sv, item)
	pr = &PathResult{Status: "ok"}
	defer func() {
		if r := recover(); r != nil {
			switch x := r.(type) {
			case *Abort:
				switch x.Kind {
				case "INFEASIBLE", "SLEEP":
					pr.Status = "pruned"
				case "STOP":
					pr.Status = "violation"
				default:
					pr.Status = "abort"
					pr.Abort = x
					if len(in.threads) > 0 && in.cur != nil && len(in.cur.frames) > 0 {
						pr.Abort = &Abort{Kind: x.Kind, Msg: x.Msg + " @ " + in.siteOf(in.curFrame(in.cur))}
					}
				}
			case *blockedErr:
				pr.Status = "abort"
				pr.Abort = abortf("INTERNAL", "blocking operation executed while not enabled @ %s", in.siteOf(in.curFrame(x.th)))
			default:
				pr.Status = "abort"
				site := ""
				if in.cur != nil && len(in.cur.frames) > 0 {
					site = in.siteOf(in.curFrame(in.cur))
				}
				st := string(debug.Stack())
				// keep the first engine frames only
				lines := strings.Split(st, "\n")
				if len(lines) > 24 {
					lines = lines[:24]
				}
				pr.Abort = abortf("INTERNAL", "engine panic: %v @ %s\n%s", r, site, strings.Join(lines, "\n"))
			}
		}
		in.finishTransition(pr.Status != "ok")
		pr.Violations = in.viols
		pr.Steps = in.steps
		pr.Decisions = len(in.taken)
		for _, d := range in.taken {
			pr.Decs += fmt.Sprintf("%c%d", d.Kind, d.Pick)
			if d.Kind == 's' {
				pr.Decs += fmt.Sprintf("[z%d]", len(d.SleepSet))
			}
			pr.Decs += " "
		}
		pr.NewItems = in.newWork
		pr.Reached = in.reached
		pr.Funcs = in.funcs
		pr.Inconcl = in.inconcl
		if pr.Status == "ok" && in.model != nil {
			pr.Nondet = in.nondetOut(in.model)
			pr.Emits = in.emitOut(in.model)
			pr.Sched = in.schedLog
		} else if pr.Status == "ok" {
			func() {
				defer func() { recover() }()
				in.ensureModel()
				if in.model != nil {
					pr.Nondet = in.nondetOut(in.model)
					pr.Emits = in.emitOut(in.model)
					pr.Sched = in.schedLog
				}
			}()
		}
	}()
	// package initialisation, then the harness entry, on thread 0
	th := &Thread{id: 0}
	in.threads = append(in.threads, th)
	in.cur = th
	if initFn := P.mainPkg.Func("init"); initFn != nil {
		in.pushFrame(th, initFn, nil, nil, nil)
		in.runAll()
	}
	th.done = false
	if os.Getenv("GOSMT_INITSTATS") != "" {
		fmt.Fprintf(os.Stderr, "init steps=%d funcs=%v\n", in.steps, in.funcs)
	}
	in.steps = 0
	for k := range in.funcs {
		delete(in.funcs, k)
	}
	in.pushFrame(th, entry, nil, nil, nil)
	in.cur = th
	in.runAll()
	return pr
}
