package main

import (
	"go/token"
	"go/types"

	"golang.org/x/tools/go/ssa"
)

func (in *Interp) bv64(v int) *Term { return in.ts.BV(uint64(v), 64) }

// ---------------------------------------------------------------------
// equality

func (in *Interp) valuesEqual(a, b Value) *Term {
	switch x := a.(type) {
	case BVv:
		return in.ts.Eq(x.T, b.(BVv).T)
	case Boolv:
		return in.ts.Eq(x.T, b.(Boolv).T)
	case StrV:
		return in.strEq(x, b.(StrV))
	case Ptrv:
		y := b.(Ptrv)
		if x.Cell != y.Cell || x.Bobj != y.Bobj {
			return in.ts.False
		}
		if x.Bobj != nil {
			return in.ts.Eq(x.Idx, y.Idx)
		}
		return in.ts.True
	case IfaceV:
		y, ok := b.(IfaceV)
		if !ok {
			// comparing interface with concrete value
			if x.T == nil {
				return in.ts.False
			}
			return in.valuesEqual(x.V, b)
		}
		if x.T == nil || y.T == nil {
			return in.ts.Bool(x.T == nil && y.T == nil)
		}
		if !types.Identical(x.T, y.T) {
			return in.ts.False
		}
		return in.valuesEqual(x.V, y.V)
	case StructV:
		y := b.(StructV)
		r := in.ts.True
		for i := range x.F {
			r = in.ts.And(r, in.valuesEqual(x.F[i], y.F[i]))
		}
		return r
	case ArrayV:
		y := b.(ArrayV)
		r := in.ts.True
		for i := range x.E {
			r = in.ts.And(r, in.valuesEqual(x.E[i], y.E[i]))
		}
		return r
	case ByteArrV:
		y := b.(ByteArrV)
		r := in.ts.True
		for i := 0; i < x.N; i++ {
			k := in.bv64(i)
			r = in.ts.And(r, in.ts.Eq(in.ts.Select(x.Arr, k), in.ts.Select(y.Arr, k)))
		}
		return r
	case ChanV:
		return in.ts.Bool(x.C == b.(ChanV).C)
	case MapV:
		return in.ts.Bool(x.M == b.(MapV).M)
	case FuncV:
		y := b.(FuncV)
		return in.ts.Bool(x.Fn == nil && y.Fn == nil)
	case SliceV:
		y, ok := b.(SliceV)
		return in.ts.Bool(ok && x.Back == nil && y.Back == nil)
	case BytesV:
		y, ok := b.(BytesV)
		return in.ts.Bool(ok && x.Obj == nil && y.Obj == nil)
	case FloatV:
		return in.ts.Bool(x.F == b.(FloatV).F)
	}
	panic(abortf("UNSUPPORTED", "equality on %T", a))
}

func minInt(a, b int) int {
	if a < b {
		return a
	}
	return b
}

func (in *Interp) strEq(a, b StrV) *Term {
	ts := in.ts
	lenEq := ts.Eq(a.Len, b.Len)
	if lenEq.IsConst() && lenEq.val == 0 {
		return ts.False
	}
	bound := minInt(a.Max, b.Max)
	if a.Len.IsConst() && int(a.Len.val) < bound {
		bound = int(a.Len.val)
	}
	if b.Len.IsConst() && int(b.Len.val) < bound {
		bound = int(b.Len.val)
	}
	if bound > in.cfg.MaxBytes && !(a.Len.IsConst() || b.Len.IsConst()) {
		// unwinding assertion: equal lengths above MaxBytes must be infeasible
		over := ts.And(lenEq, ts.ULt(in.bv64(in.cfg.MaxBytes), a.Len))
		if r, _ := in.check(over); r != Unsat {
			in.boundExceeded("string comparison longer than MaxBytes")
		}
		bound = in.cfg.MaxBytes
	}
	r := lenEq
	for k := 0; k < bound; k++ {
		kk := in.bv64(k)
		inb := ts.ULt(kk, a.Len)
		eq := ts.Eq(ts.Select(a.Arr, ts.Add(a.Off, kk)), ts.Select(b.Arr, ts.Add(b.Off, kk)))
		r = ts.And(r, ts.Or(ts.Not(inb), eq))
		if r.IsConst() && r.val == 0 {
			return r
		}
	}
	return r
}

// concrete string content if fully concrete
func (in *Interp) strConcrete(s StrV) (string, bool) {
	if !s.Len.IsConst() || !s.Off.IsConst() {
		return "", false
	}
	n := int(s.Len.val)
	b := make([]byte, n)
	for i := 0; i < n; i++ {
		t := in.ts.Select(s.Arr, in.ts.BV(s.Off.val+uint64(i), 64))
		if !t.IsConst() {
			return "", false
		}
		b[i] = byte(t.val)
	}
	return string(b), true
}

// ---------------------------------------------------------------------
// binary operators

func (in *Interp) binop(th *Thread, fr *Frame, op token.Token, a, b Value, xt types.Type, rt types.Type) (Value, bool) {
	ts := in.ts
	switch op {
	case token.EQL:
		return Boolv{in.valuesEqual(a, b)}, true
	case token.NEQ:
		return Boolv{ts.Not(in.valuesEqual(a, b))}, true
	}
	switch x := a.(type) {
	case Boolv:
		y := b.(Boolv)
		switch op {
		case token.AND, token.LAND:
			return Boolv{ts.And(x.T, y.T)}, true
		case token.OR, token.LOR:
			return Boolv{ts.Or(x.T, y.T)}, true
		}
	case StrV:
		y := b.(StrV)
		switch op {
		case token.ADD:
			return in.strConcat(x, y), true
		case token.LSS, token.LEQ, token.GTR, token.GEQ:
			sa, oka := in.strConcrete(x)
			sb, okb := in.strConcrete(y)
			if oka && okb {
				var r bool
				switch op {
				case token.LSS:
					r = sa < sb
				case token.LEQ:
					r = sa <= sb
				case token.GTR:
					r = sa > sb
				case token.GEQ:
					r = sa >= sb
				}
				return Boolv{ts.Bool(r)}, true
			}
			panic(abortf("UNSUPPORTED", "ordered comparison of symbolic strings"))
		}
	case FloatV:
		y := b.(FloatV)
		switch op {
		case token.ADD:
			return FloatV{x.F + y.F}, true
		case token.SUB:
			return FloatV{x.F - y.F}, true
		case token.MUL:
			return FloatV{x.F * y.F}, true
		case token.QUO:
			return FloatV{x.F / y.F}, true
		case token.LSS:
			return Boolv{ts.Bool(x.F < y.F)}, true
		case token.LEQ:
			return Boolv{ts.Bool(x.F <= y.F)}, true
		case token.GTR:
			return Boolv{ts.Bool(x.F > y.F)}, true
		case token.GEQ:
			return Boolv{ts.Bool(x.F >= y.F)}, true
		}
	case BVv:
		y := b.(BVv)
		_, signed, _ := typeIntWidth(xt)
		w := x.T.sort.W
		switch op {
		case token.ADD:
			return BVv{ts.Add(x.T, y.T)}, true
		case token.SUB:
			return BVv{ts.Sub(x.T, y.T)}, true
		case token.MUL:
			return BVv{ts.Mul(x.T, y.T)}, true
		case token.QUO, token.REM:
			zero := ts.Eq(y.T, ts.BV(0, w))
			if in.branch(zero) {
				in.runtimePanic(th, "integer divide by zero")
				return nil, false
			}
			if signed {
				if op == token.QUO {
					return BVv{ts.SDiv(x.T, y.T)}, true
				}
				return BVv{ts.SRem(x.T, y.T)}, true
			}
			if op == token.QUO {
				return BVv{ts.UDiv(x.T, y.T)}, true
			}
			return BVv{ts.URem(x.T, y.T)}, true
		case token.AND:
			return BVv{ts.BAnd(x.T, y.T)}, true
		case token.OR:
			return BVv{ts.BOr(x.T, y.T)}, true
		case token.XOR:
			return BVv{ts.BXor(x.T, y.T)}, true
		case token.AND_NOT:
			return BVv{ts.BAnd(x.T, ts.BNot(y.T))}, true
		case token.SHL, token.SHR:
			// shift count may have a different width; Go: count >= width gives 0 (or sign fill)
			cnt := y.T
			cw := cnt.sort.W
			var c2 *Term
			if cw < w {
				c2 = ts.ZExt(cnt, w)
			} else if cw > w {
				// saturate: if cnt >= w then w else cnt
				big := ts.ULe(ts.BV(uint64(w), cw), cnt)
				c2 = ts.Ite(big, ts.BV(uint64(w), w), ts.Extract(cnt, w-1, 0))
			} else {
				c2 = cnt
			}
			if op == token.SHL {
				return BVv{ts.Shl(x.T, c2)}, true
			}
			if signed {
				return BVv{ts.AShr(x.T, c2)}, true
			}
			return BVv{ts.LShr(x.T, c2)}, true
		case token.LSS:
			if signed {
				return Boolv{ts.SLt(x.T, y.T)}, true
			}
			return Boolv{ts.ULt(x.T, y.T)}, true
		case token.LEQ:
			if signed {
				return Boolv{ts.SLe(x.T, y.T)}, true
			}
			return Boolv{ts.ULe(x.T, y.T)}, true
		case token.GTR:
			if signed {
				return Boolv{ts.SLt(y.T, x.T)}, true
			}
			return Boolv{ts.ULt(y.T, x.T)}, true
		case token.GEQ:
			if signed {
				return Boolv{ts.SLe(y.T, x.T)}, true
			}
			return Boolv{ts.ULe(y.T, x.T)}, true
		}
	}
	panic(abortf("UNSUPPORTED", "binop %s on %T", op, a))
}

func (in *Interp) unop(th *Thread, fr *Frame, x *ssa.UnOp) (Value, bool) {
	v := in.get(fr, x.X)
	ts := in.ts
	switch x.Op {
	case token.MUL: // load
		return in.loadPtr(th, v.(Ptrv))
	case token.NOT:
		return Boolv{ts.Not(v.(Boolv).T)}, true
	case token.SUB:
		if f, ok := v.(FloatV); ok {
			return FloatV{-f.F}, true
		}
		return BVv{ts.Neg(v.(BVv).T)}, true
	case token.XOR:
		return BVv{ts.BNot(v.(BVv).T)}, true
	}
	panic(abortf("UNSUPPORTED", "unop %s", x.Op))
}

// ---------------------------------------------------------------------
// conversions

func (in *Interp) convert(v Value, from, to types.Type) Value {
	ts := in.ts
	fu, tu := from.Underlying(), to.Underlying()
	if tw, _, ok := typeIntWidth(to); ok {
		switch x := v.(type) {
		case BVv:
			fw := x.T.sort.W
			_, fsigned, _ := typeIntWidth(from)
			switch {
			case tw == fw:
				return x
			case tw < fw:
				return BVv{ts.Extract(x.T, tw-1, 0)}
			case fsigned:
				return BVv{ts.SExt(x.T, tw)}
			default:
				return BVv{ts.ZExt(x.T, tw)}
			}
		case FloatV:
			return BVv{ts.BV(uint64(int64(x.F)), tw)}
		case Ptrv:
			// unsafe.Pointer / uintptr conversions
			panic(abortf("UNSUPPORTED", "pointer to integer conversion"))
		}
	}
	if tb, ok := tu.(*types.Basic); ok {
		if tb.Info()&types.IsFloat != 0 {
			switch x := v.(type) {
			case FloatV:
				return x
			case BVv:
				if x.T.IsConst() {
					_, fsigned, _ := typeIntWidth(from)
					if fsigned {
						return FloatV{float64(sext64(x.T.val, x.T.sort.W))}
					}
					return FloatV{float64(x.T.val)}
				}
				panic(abortf("UNSUPPORTED", "symbolic int to float"))
			}
		}
		if tb.Info()&types.IsString != 0 {
			switch x := v.(type) {
			case StrV:
				return x
			case BytesV:
				if x.Obj == nil {
					return in.constStr("")
				}
				in.noteAlloc(x.Len)
				return StrV{Arr: x.Obj.arr, Off: x.Off, Len: x.Len, Max: x.Obj.max}
			case BVv:
				// string(rune)
				if x.T.IsConst() {
					return in.constStr(string(rune(sext64(x.T.val, x.T.sort.W))))
				}
				panic(abortf("UNSUPPORTED", "string(symbolic rune)"))
			}
		}
		if tb.Kind() == types.UnsafePointer {
			panic(abortf("UNSUPPORTED", "unsafe.Pointer conversion"))
		}
	}
	if ts2, ok := tu.(*types.Slice); ok {
		if sv, ok := v.(StrV); ok && isByteType(ts2.Elem()) {
			// []byte(string): fresh object
			in.noteAlloc(sv.Len)
			var arr *Term
			if sv.Off.IsConst() && sv.Off.val == 0 {
				arr = sv.Arr
			} else {
				arr = in.copyBytes(in.ts.ConstArr(0), in.bv64(0), sv.Arr, sv.Off, sv.Len, sv.Max)
			}
			obj := in.newByteObj(arr, sv.Len, sv.Max)
			return BytesV{obj, in.bv64(0), sv.Len, sv.Len}
		}
		if _, ok := fu.(*types.Slice); ok {
			return v
		}
	}
	if _, ok := fu.(*types.Basic); !ok {
		// conversions between identical underlying types
		return v
	}
	panic(abortf("UNSUPPORTED", "convert %s -> %s (%T)", from, to, v))
}

// copyBytes returns dst with n bytes copied from src (memmove semantics w.r.t.
// the given src snapshot). bound is a concrete upper bound on n.
func (in *Interp) copyBytes(dst, dOff, src, sOff, n *Term, bound int) *Term {
	ts := in.ts
	if n.IsConst() {
		cnt := int(n.val)
		if cnt > 1<<20 {
			panic(abortf("BOUND-EXCEEDED", "concrete copy of %d bytes", cnt))
		}
		for k := 0; k < cnt; k++ {
			kk := in.bv64(k)
			dst = ts.StoreArr(dst, ts.Add(dOff, kk), ts.Select(src, ts.Add(sOff, kk)))
		}
		return dst
	}
	if bound > in.cfg.MaxBytes {
		// unwinding assertion
		over := ts.ULt(in.bv64(in.cfg.MaxBytes), n)
		if r, _ := in.check(over); r != Unsat {
			in.boundExceeded("symbolic copy length may exceed MaxBytes")
			in.addConstraint(ts.Not(over))
		}
		bound = in.cfg.MaxBytes
	}
	orig := dst
	for k := 0; k < bound; k++ {
		kk := in.bv64(k)
		di := ts.Add(dOff, kk)
		val := ts.Ite(ts.ULt(kk, n), ts.Select(src, ts.Add(sOff, kk)), ts.Select(orig, di))
		dst = ts.StoreArr(dst, di, val)
	}
	return dst
}

func (in *Interp) strConcat(a, b StrV) StrV {
	ts := in.ts
	if a.Len.IsConst() && a.Len.val == 0 {
		return b
	}
	if b.Len.IsConst() && b.Len.val == 0 {
		return a
	}
	if sa, ok := in.strConcrete(a); ok {
		if sb, ok := in.strConcrete(b); ok {
			return in.constStr(sa + sb)
		}
	}
	nl := ts.Add(a.Len, b.Len)
	in.noteAlloc(nl)
	arr := in.copyBytes(ts.ConstArr(0), in.bv64(0), a.Arr, a.Off, a.Len, a.Max)
	arr = in.copyBytes(arr, a.Len, b.Arr, b.Off, b.Len, b.Max)
	mx := a.Max + b.Max
	if a.Max == maxInt || b.Max == maxInt {
		mx = maxInt
	}
	return StrV{Arr: arr, Off: in.bv64(0), Len: nl, Max: mx}
}

// ---------------------------------------------------------------------
// slices

// ubound computes a syntactic upper bound for a BV term (maxInt if unknown).
func (in *Interp) ubound(t *Term) int {
	switch t.op {
	case OpConst:
		if t.val > uint64(maxInt) {
			return maxInt
		}
		return int(t.val)
	case OpVar:
		if b, ok := in.arrBound["len:"+t.name]; ok {
			return b
		}
		if t.sort.W < 63 {
			return int(mask(t.sort.W))
		}
	case OpZExt:
		iw := t.args[0].sort.W
		ub := in.ubound(t.args[0])
		if iw < 63 && ub > int(mask(iw)) {
			ub = int(mask(iw))
		}
		return ub
	case OpIte:
		a, b := in.ubound(t.args[1]), in.ubound(t.args[2])
		if a > b {
			return a
		}
		return b
	case OpBAnd:
		a, b := in.ubound(t.args[0]), in.ubound(t.args[1])
		return minInt(a, b)
	case OpExtract:
		if t.sort.W < 63 {
			return int(mask(t.sort.W))
		}
	case OpAdd:
		a, b := in.ubound(t.args[0]), in.ubound(t.args[1])
		if a < 1<<40 && b < 1<<40 {
			r := a + b
			if t.sort.W < 63 && r > int(mask(t.sort.W)) {
				r = int(mask(t.sort.W))
			}
			return r
		}
	case OpSub:
		// x - c with c <= x is not known syntactically; x - y <= ub(x) only if no wrap: unknown
	case OpLShr:
		return in.ubound(t.args[0])
	case OpURem:
		if b := in.ubound(t.args[1]); b != maxInt && b > 0 {
			return b - 1
		}
	}
	if t.sort.W < 63 {
		return int(mask(t.sort.W))
	}
	return maxInt
}

func (in *Interp) makeSlice(th *Thread, fr *Frame, x *ssa.MakeSlice) (Value, bool) {
	ts := in.ts
	l := in.to64(in.get(fr, x.Len), x.Len.Type())
	c := in.to64(in.get(fr, x.Cap), x.Cap.Type())
	// len < 0 || len > cap => panic
	bad := ts.Or(ts.SLt(l, in.bv64(0)), ts.SLt(c, l))
	if in.branch(bad) {
		in.runtimePanic(th, "makeslice: len out of range")
		return nil, false
	}
	et := x.Type().Underlying().(*types.Slice).Elem()
	esz := in.sizeof(et)
	in.noteAlloc(ts.Mul(c, in.bv64(esz)))
	if isByteType(et) {
		obj := in.newByteObj(ts.ConstArr(0), c, in.ubound(c))
		return BytesV{obj, in.bv64(0), l, c}, true
	}
	n := in.concretize(c, in.cfg.MaxSliceLen(), "make([]T, n) capacity")
	ln := in.concretize(l, n, "make([]T, n) length")
	in.objCount++
	b := &Backing{id: in.objCount, cells: make([]*Cell, n)}
	for i := range b.cells {
		b.cells[i] = in.newCell(et)
	}
	return SliceV{b, 0, ln, n}, true
}

func (c *Config) MaxSliceLen() int { return 16 }

func (in *Interp) sizeof(t types.Type) int {
	switch u := t.Underlying().(type) {
	case *types.Basic:
		if w, _, ok := intWidth(u); ok {
			return w / 8
		}
		switch u.Kind() {
		case types.Bool:
			return 1
		case types.String:
			return 16
		}
		return 8
	case *types.Struct:
		s := 0
		for i := 0; i < u.NumFields(); i++ {
			s += in.sizeof(u.Field(i).Type())
		}
		if s == 0 {
			return 0
		}
		return (s + 7) &^ 7
	case *types.Array:
		return int(u.Len()) * in.sizeof(u.Elem())
	case *types.Slice:
		return 24
	case *types.Interface:
		return 16
	}
	return 8
}

// noteAlloc adds n bytes to the allocation counter and checks the budget.
func (in *Interp) noteAlloc(n *Term) {
	if in.consumedBytes == nil {
		return
	}
	ts := in.ts
	// guard against wrap-around: treat sizes >= 2^40 as immediately over budget
	huge := ts.ULt(ts.BV(1<<40, 64), n)
	in.allocTotal = ts.Add(in.allocTotal, n)
	budget := ts.Add(ts.Mul(in.consumedBytes, ts.BV(uint64(in.cfg.AllocA), 64)), ts.BV(uint64(in.cfg.AllocB), 64))
	over := ts.Or(huge, ts.ULt(budget, in.allocTotal))
	if over.IsConst() && over.val == 0 {
		return
	}
	r, m := in.check(over)
	if r == Sat {
		v := &Violation{Kind: "alloc", Label: "allocation out of proportion to input", Site: in.siteOf(in.cur.frames[len(in.cur.frames)-1]), Model: m}
		v.Nondet = in.nondetOut(m)
		v.Emits = in.emitOut(m)
		if m != nil {
			v.Emits = append(v.Emits, EmitOut{"alloc_bytes", itoa(newEval(m).eval(in.allocTotal))})
		}
		v.Trace = in.stackTrace()
		in.viols = append(in.viols, v)
		// continue only within budget
		in.addConstraint(ts.Not(over))
	} else if r == Unknown {
		in.inconcl = append(in.inconcl, "allocation budget: solver unknown")
	}
}

func itoa(v uint64) string {
	if v == 0 {
		return "0"
	}
	var b [20]byte
	i := len(b)
	for v > 0 {
		i--
		b[i] = byte('0' + v%10)
		v /= 10
	}
	return string(b[i:])
}

func (in *Interp) to64(v Value, t types.Type) *Term {
	x := v.(BVv).T
	if x.sort.W == 64 {
		return x
	}
	_, signed, _ := typeIntWidth(t)
	if signed {
		return in.ts.SExt(x, 64)
	}
	return in.ts.ZExt(x, 64)
}

func (in *Interp) sliceOp(th *Thread, fr *Frame, x *ssa.Slice) (Value, bool) {
	ts := in.ts
	base := in.get(fr, x.X)
	var lo, hi, mx *Term
	if x.Low != nil {
		lo = in.to64(in.get(fr, x.Low), x.Low.Type())
	} else {
		lo = in.bv64(0)
	}
	if x.High != nil {
		hi = in.to64(in.get(fr, x.High), x.High.Type())
	}
	if x.Max != nil {
		mx = in.to64(in.get(fr, x.Max), x.Max.Type())
	}
	switch b := base.(type) {
	case StrV:
		if hi == nil {
			hi = b.Len
		}
		bad := ts.Or(ts.ULt(b.Len, hi), ts.ULt(hi, lo))
		if in.branch(bad) {
			in.runtimePanic(th, "slice bounds out of range (string)")
			return nil, false
		}
		return StrV{Arr: b.Arr, Off: ts.Add(b.Off, lo), Len: ts.Sub(hi, lo), Max: b.Max}, true
	case BytesV:
		if hi == nil {
			hi = b.Len
		}
		capT := b.Cap
		if mx != nil {
			bad := ts.Or(ts.ULt(b.Cap, mx), ts.ULt(mx, hi))
			if in.branch(bad) {
				in.runtimePanic(th, "slice bounds out of range (max)")
				return nil, false
			}
			capT = mx
		}
		bad := ts.Or(ts.ULt(capT, hi), ts.ULt(hi, lo))
		if in.branch(bad) {
			in.runtimePanic(th, "slice bounds out of range")
			return nil, false
		}
		if b.Obj == nil {
			return b, true
		}
		return BytesV{b.Obj, ts.Add(b.Off, lo), ts.Sub(hi, lo), ts.Sub(capT, lo)}, true
	case SliceV:
		l := in.concretize(lo, b.Cap+1, "slice low")
		h := b.Len
		if hi != nil {
			h = in.concretizeOOB(hi, b.Cap)
		}
		c := b.Cap
		if mx != nil {
			c = in.concretizeOOB(mx, b.Cap)
		}
		if h > c || l > h || c > b.Cap {
			in.runtimePanic(th, "slice bounds out of range")
			return nil, false
		}
		if b.Back == nil {
			return b, true
		}
		return SliceV{b.Back, b.Off + l, h - l, c - l}, true
	case Ptrv:
		// pointer to array
		if b.IsNil() {
			in.runtimePanic(th, "nil pointer dereference (slice of nil array pointer)")
			return nil, false
		}
		c := b.Cell
		if c.bobj != nil {
			n := c.bobj.n
			if hi == nil {
				hi = n
			}
			capT := n
			if mx != nil {
				capT = mx
			}
			bad := ts.Or(ts.Or(ts.ULt(n, capT), ts.ULt(capT, hi)), ts.ULt(hi, lo))
			if in.branch(bad) {
				in.runtimePanic(th, "slice bounds out of range (array)")
				return nil, false
			}
			return BytesV{c.bobj, lo, ts.Sub(hi, lo), ts.Sub(capT, lo)}, true
		}
		if c.elems != nil || c.typ.Underlying().(*types.Array).Len() == 0 {
			n := len(c.elems)
			l := in.concretizeOOB(lo, n)
			h := n
			if hi != nil {
				h = in.concretizeOOB(hi, n)
			}
			cc := n
			if mx != nil {
				cc = in.concretizeOOB(mx, n)
			}
			if h > cc || l > h || cc > n {
				in.runtimePanic(th, "slice bounds out of range")
				return nil, false
			}
			in.objCount++
			return SliceV{&Backing{id: c.id, cells: c.elems}, l, h - l, cc - l}, true
		}
	}
	panic(abortf("UNSUPPORTED", "slice of %T", base))
}

// concretizeOOB case-splits t over [0,max] plus one out-of-range representative (max+1).
func (in *Interp) concretizeOOB(t *Term, max int) int {
	if max < 0 {
		return 0
	}
	if t.IsConst() {
		if t.val > uint64(max) {
			return max + 1
		}
		return int(t.val)
	}
	guards := make([]*Term, max+2)
	for i := 0; i <= max; i++ {
		guards[i] = in.ts.Eq(t, in.ts.BV(uint64(i), t.sort.W))
	}
	guards[max+1] = in.ts.ULt(in.ts.BV(uint64(max), t.sort.W), t)
	k := in.choose(guards)
	if k < 0 {
		panic(abortf("INFEASIBLE", "no feasible index value"))
	}
	return k
}

func (in *Interp) indexAddr(th *Thread, fr *Frame, x *ssa.IndexAddr) (Value, bool) {
	ts := in.ts
	base := in.get(fr, x.X)
	idx := in.to64(in.get(fr, x.Index), x.Index.Type())
	switch b := base.(type) {
	case BytesV:
		if in.branch(ts.ULe(b.Len, idx)) {
			in.runtimePanic(th, "index out of range")
			return nil, false
		}
		return Ptrv{Bobj: b.Obj, Idx: ts.Add(b.Off, idx)}, true
	case SliceV:
		i := in.concretizeOOB(idx, b.Len-1)
		if i >= b.Len {
			in.runtimePanic(th, "index out of range")
			return nil, false
		}
		return Ptrv{Cell: b.Back.cells[b.Off+i]}, true
	case Ptrv:
		if b.IsNil() {
			in.runtimePanic(th, "nil pointer dereference (index of nil array pointer)")
			return nil, false
		}
		c := b.Cell
		if c.bobj != nil {
			if in.branch(ts.ULe(c.bobj.n, idx)) {
				in.runtimePanic(th, "index out of range")
				return nil, false
			}
			return Ptrv{Bobj: c.bobj, Idx: idx}, true
		}
		n := len(c.elems)
		i := in.concretizeOOB(idx, n-1)
		if i >= n {
			in.runtimePanic(th, "index out of range")
			return nil, false
		}
		return Ptrv{Cell: c.elems[i]}, true
	}
	panic(abortf("UNSUPPORTED", "IndexAddr on %T", base))
}

func (in *Interp) indexVal(th *Thread, fr *Frame, x *ssa.Index) (Value, bool) {
	base := in.get(fr, x.X)
	idx := in.to64(in.get(fr, x.Index), x.Index.Type())
	switch b := base.(type) {
	case ArrayV:
		i := in.concretizeOOB(idx, len(b.E)-1)
		if i >= len(b.E) {
			in.runtimePanic(th, "index out of range")
			return nil, false
		}
		return b.E[i], true
	case ByteArrV:
		if in.branch(in.ts.ULe(in.bv64(b.N), idx)) {
			in.runtimePanic(th, "index out of range")
			return nil, false
		}
		return BVv{in.ts.Select(b.Arr, idx)}, true
	case StrV:
		if in.branch(in.ts.ULe(b.Len, idx)) {
			in.runtimePanic(th, "index out of range (string)")
			return nil, false
		}
		return BVv{in.ts.Select(b.Arr, in.ts.Add(b.Off, idx))}, true
	}
	panic(abortf("UNSUPPORTED", "Index on %T", base))
}

// ---------------------------------------------------------------------
// maps

// mapFind returns the index of key in m (forking on symbolic comparisons) or -1.
func (in *Interp) mapFind(m *MapObj, key Value) int {
	for i, k := range m.keys {
		if in.branch(in.valuesEqual(k, key)) {
			return i
		}
	}
	return -1
}

func (in *Interp) mapUpdate(m *MapObj, key, val Value) {
	if i := in.mapFind(m, key); i >= 0 {
		m.vals[i] = val
		return
	}
	m.keys = append(m.keys, key)
	m.vals = append(m.vals, val)
}

func (in *Interp) mapDelete(m *MapObj, key Value) {
	if m == nil {
		return
	}
	if i := in.mapFind(m, key); i >= 0 {
		m.keys = append(append([]Value{}, m.keys[:i]...), m.keys[i+1:]...)
		m.vals = append(append([]Value{}, m.vals[:i]...), m.vals[i+1:]...)
	}
}

func (in *Interp) lookup(th *Thread, fr *Frame, x *ssa.Lookup) (Value, bool) {
	base := in.get(fr, x.X)
	switch b := base.(type) {
	case StrV:
		idx := in.to64(in.get(fr, x.Index), x.Index.Type())
		if in.branch(in.ts.ULe(b.Len, idx)) {
			in.runtimePanic(th, "index out of range (string)")
			return nil, false
		}
		return BVv{in.ts.Select(b.Arr, in.ts.Add(b.Off, idx))}, true
	case MapV:
		key := in.get(fr, x.Index)
		var val Value
		found := false
		if b.M != nil {
			if i := in.mapFind(b.M, key); i >= 0 {
				val = b.M.vals[i]
				found = true
			}
		}
		if !found {
			val = in.zero(x.X.Type().Underlying().(*types.Map).Elem())
		}
		if x.CommaOk {
			return TupleV{val, Boolv{in.ts.Bool(found)}}, true
		}
		return val, true
	}
	panic(abortf("UNSUPPORTED", "Lookup on %T", base))
}

func (in *Interp) makeIter(v Value) Value {
	switch x := v.(type) {
	case MapV:
		it := &IterV{}
		if x.M != nil {
			it.m = x.M
			it.keys = append([]Value{}, x.M.keys...)
			it.vals = append([]Value{}, x.M.vals...)
		}
		return it
	case StrV:
		s, ok := in.strConcrete(x)
		if !ok {
			panic(abortf("UNSUPPORTED", "range over symbolic string"))
		}
		cs := in.constStr(s)
		return &IterV{str: &cs}
	}
	panic(abortf("UNSUPPORTED", "range over %T", v))
}

func (in *Interp) iterNext(it *IterV, x *ssa.Next) Value {
	tt := x.Type().(*types.Tuple)
	if x.IsString {
		s, _ := in.strConcrete(*it.str)
		if it.pos >= len(s) {
			return TupleV{Boolv{in.ts.False}, in.zero(tt.At(1).Type()), in.zero(tt.At(2).Type())}
		}
		// decode rune
		r := []rune(s[it.pos:])[0]
		sz := len(string(r))
		if r == 0xFFFD {
			sz = 1
		}
		idx := it.pos
		it.pos += sz
		return TupleV{Boolv{in.ts.True}, BVv{in.bv64(idx)}, BVv{in.ts.BV(uint64(r), 32)}}
	}
	for it.pos < len(it.keys) {
		k, v := it.keys[it.pos], it.vals[it.pos]
		it.pos++
		// skip entries deleted during iteration; use current value
		live := false
		for j, kk := range it.m.keys {
			if in.sameKeyIdentity(kk, k) {
				v = it.m.vals[j]
				live = true
				break
			}
		}
		if !live {
			continue
		}
		var kv, vv Value = k, v
		if _, ok := tt.At(1).Type().(*types.Tuple); ok {
			kv = TupleV{}
		}
		return TupleV{Boolv{in.ts.True}, kv, vv}
	}
	return TupleV{Boolv{in.ts.False}, in.zero2(tt.At(1).Type()), in.zero2(tt.At(2).Type())}
}

func (in *Interp) zero2(t types.Type) Value {
	if b, ok := t.(*types.Basic); ok && b.Kind() == types.Invalid {
		return nil
	}
	return in.zero(t)
}

// sameKeyIdentity: syntactic identity of keys (used only to track deletions during iteration)
func (in *Interp) sameKeyIdentity(a, b Value) bool {
	t := in.valuesEqual(a, b)
	return t.IsConst() && t.val != 0
}

// ---------------------------------------------------------------------
// type assertions

func (in *Interp) implements(dyn types.Type, iface *types.Interface) bool {
	if iface.NumMethods() == 0 {
		return true
	}
	return types.Implements(dyn, iface)
}

func (in *Interp) typeAssert(th *Thread, fr *Frame, x *ssa.TypeAssert) (Value, bool) {
	v := in.get(fr, x.X).(IfaceV)
	ok := false
	var res Value
	if it, isIface := x.AssertedType.Underlying().(*types.Interface); isIface {
		if v.T != nil && in.implements(v.T, it) {
			ok = true
			res = v
		}
	} else {
		if v.T != nil && types.Identical(v.T, x.AssertedType) {
			ok = true
			res = v.V
		}
	}
	if x.CommaOk {
		if !ok {
			res = in.zero(x.AssertedType)
		}
		return TupleV{res, Boolv{in.ts.Bool(ok)}}, true
	}
	if !ok {
		in.runtimePanic(th, "interface conversion: failed type assertion to "+x.AssertedType.String())
		return nil, false
	}
	return res, true
}
