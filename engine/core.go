package main

// Interpreter state, path conditions, decisions.

import (
	"fmt"
	"go/types"
	"sort"
	"strings"

	"golang.org/x/tools/go/ssa"
)

type Program struct {
	prog      *ssa.Program
	pkgs      map[string]*ssa.Package // by path
	funcs     map[string]*ssa.Function // by String()
	redirects map[string]string        // callee full name -> harness function full name
	constOv   map[string][2]int64      // function name -> (from,to) int const override
	mainPkg   *ssa.Package
}

type Config struct {
	MaxSteps    int
	MaxVisits   int // per (frame, block)
	MaxBytes    int // bound for symbolic-length byte copies when nothing better is known
	MaxSchedOps int
	AllocA      int64 // allocation budget: alloc <= A*consumed + B
	AllocB      int64
	NoPOR       bool
	AtomicInvisible bool
	CheckLeaks  bool
	OpaqueMax   int
	Thorough    bool
	NoIfConv    bool
	PruneUnwind bool // L2: executions that iterate a loop more than MaxVisits times are dropped (fair-scheduling bound)
	Preempt     int // max preemptions per execution (-1: unbounded, sleep-set reduction)
}

type Decision struct {
	Kind  byte // 'b' branch, 'c' choice, 's' schedule
	N     int
	Pick  int
	// schedule decisions: sleep-set candidates before the pick, remaining
	// sibling candidates, and whether this prefix owns queuing the siblings
	SleepSet []SleepEnt
	Rest     []int
	Own      bool
	Sched    bool // a choice made by the scheduler model (which receiver, which ready select case)
}

type WorkItem struct {
	Prefix []Decision
	Model  *Model
}

type NondetRec struct {
	Kind string   `json:"kind"`
	Name string   `json:"name"`
	Max  int      `json:"max,omitempty"`
	Term *Term    `json:"-"`
	Len  *Term    `json:"-"`
	Arr  *Term    `json:"-"`
	W    int      `json:"w,omitempty"`
}

type EmitRec struct {
	Label string
	Val   Value
}

type Violation struct {
	Kind   string // assert, panic, deadlock, leak, alloc
	Label  string
	Site   string
	Model  *Model
	Trace  []string
	Emits  []EmitOut
	Nondet []NondetOut
	Sched  []int
}

type NondetOut struct {
	Kind  string  `json:"kind"`
	Name  string  `json:"name"`
	Val   uint64  `json:"val"`
	Bytes []uint8 `json:"bytes,omitempty"`
}

type EmitOut struct {
	Label string `json:"label"`
	Val   string `json:"val"`
}

type PathResult struct {
	Status     string // ok, violation, abort, infeasible
	Abort      *Abort
	Violations []*Violation
	Steps      int
	Decisions  int
	NewItems   []WorkItem
	Reached    map[string]bool
	Funcs      map[string]int
	Model      *Model
	Nondet     []NondetOut
	Emits      []EmitOut
	Sched      []int
	Decs       string
	Inconcl    []string
}

type Interp struct {
	P   *Program
	cfg *Config
	ts  *Store
	sv  *Solver

	pc      []*Term
	model   *Model
	prefix  []Decision
	pos     int // next prefix entry to replay
	taken   []Decision
	newWork []WorkItem

	objCount int
	globals  map[*ssa.Global]*Cell
	inited   map[*ssa.Package]bool
	nondets  []NondetRec
	arrBound map[string]int
	emits    []EmitRec
	reached  map[string]bool
	funcs    map[string]int
	viols    []*Violation
	inconcl  []string
	steps    int

	threads  []*Thread
	cur      *Thread
	schedLog []int
	schedOps int
	sleepSet []SleepEnt
	touched  map[int]bool
	trans    *transState

	allocTotal    *Term // BV64 sum of allocation sizes
	consumedBytes *Term // BV64: harness-declared input size
	allocChecked  bool

	syncs   map[interface{}]*SyncObj
	fresh   int
	opaques map[string]Value
	logs    []string // vLog entries (concrete summaries)
	typeIDs map[string]int
	pendingTrace []string
	schedChoice  bool
	preempts     int
	unfair       int
}

type Thread struct {
	id      int
	frames  []*Frame
	done    bool
	panicV  *PanicState
	granted bool // the visible op at pc has been granted by the scheduler
	started bool
	name    string
	// rendezvous completion written by a partner thread
	wake *Wake
}

type Wake struct {
	val   Value
	ok    bool
	index int // select case index
}

type PanicState struct {
	trace     []string
	val       Value
	site      string
	recovered bool
}

type Deferred struct {
	fn   Value // FuncV or builtin marker
	args []Value
	call *ssa.CallCommon
}

type Frame struct {
	fn      *ssa.Function
	env     map[ssa.Value]Value
	block   *ssa.BasicBlock
	prev    *ssa.BasicBlock
	pc      int
	defers  []Deferred
	visits  map[int]int
	retTo   ssa.Value // call instruction in caller to bind result to (nil => discard)
	onRet   func(Value)
	byPanic bool // frame is a deferred call run while panicking
	running bool // RunDefers in progress due to panic unwinding
	result  Value
	unwound bool
}

func NewInterp(p *Program, cfg *Config, sv *Solver, item WorkItem) *Interp {
	in := &Interp{P: p, cfg: cfg, sv: sv, ts: NewStore()}
	in.prefix = item.Prefix
	in.model = item.Model
	in.globals = map[*ssa.Global]*Cell{}
	in.inited = map[*ssa.Package]bool{}
	in.arrBound = map[string]int{}
	in.reached = map[string]bool{}
	in.funcs = map[string]int{}
	in.syncs = map[interface{}]*SyncObj{}
	in.opaques = map[string]Value{}
	in.typeIDs = map[string]int{}
	in.allocTotal = in.ts.BV(0, 64)
	sv.Reset()
	return in
}

func (in *Interp) freshName(prefix string) string {
	in.fresh++
	return fmt.Sprintf("%s_%d", prefix, in.fresh)
}

// ---------------------------------------------------------------------
// path condition

func (in *Interp) addConstraint(c *Term) {
	if c.IsConst() {
		if c.val == 0 {
			panic(abortf("INFEASIBLE", "false constraint"))
		}
		return
	}
	in.pc = append(in.pc, c)
	in.sv.Assert(c)
	if in.model != nil {
		if newEval(in.model).eval(c) == 0 {
			in.model = nil
		}
	}
}

func (in *Interp) queryTerms() []*Term {
	var q []*Term
	for _, nd := range in.nondets {
		switch nd.Kind {
		case "bytes", "string":
			q = append(q, nd.Len)
			for i := 0; i < nd.Max; i++ {
				q = append(q, in.ts.Select(nd.Arr, in.ts.BV(uint64(i), 64)))
			}
		case "array":
			for i := 0; i < nd.Max; i++ {
				q = append(q, in.ts.Select(nd.Arr, in.ts.BV(uint64(i), 64)))
			}
		default:
			q = append(q, nd.Term)
		}
	}
	return q
}

func (in *Interp) modelFromValues(vals []uint64) *Model {
	m := NewModel()
	k := 0
	for _, nd := range in.nondets {
		switch nd.Kind {
		case "bytes", "string":
			m.Scalars[nd.Len.name] = vals[k]
			k++
			am := map[uint64]uint8{}
			for i := 0; i < nd.Max; i++ {
				am[uint64(i)] = uint8(vals[k])
				k++
			}
			m.Arrays[nd.Arr.name] = am
		case "array":
			am := map[uint64]uint8{}
			for i := 0; i < nd.Max; i++ {
				am[uint64(i)] = uint8(vals[k])
				k++
			}
			m.Arrays[nd.Arr.name] = am
		default:
			m.Scalars[nd.Term.name] = vals[k]
			k++
		}
	}
	return m
}

// check decides pc ∧ extra; on Sat returns a verified total model.
func (in *Interp) check(extra *Term) (Result, *Model) {
	if extra != nil && extra.IsConst() && extra.val == 0 {
		return Unsat, nil
	}
	res, vals := in.sv.CheckWith(extra, in.queryTerms())
	if res != Sat {
		if res == Unknown {
			in.inconcl = append(in.inconcl, "solver unknown: "+in.sv.lastErr)
		}
		return res, nil
	}
	m := in.modelFromValues(vals)
	ev := newEval(m)
	ok := true
	for _, c := range in.pc {
		if ev.eval(c) == 0 {
			ok = false
			break
		}
	}
	if ok && extra != nil && ev.eval(extra) == 0 {
		ok = false
	}
	if !ok {
		// solver says sat, but the completed model does not satisfy pc under
		// our evaluator: depends on array cells outside the queried range.
		in.inconcl = append(in.inconcl, "MODEL-MISMATCH (array cell outside queried bound?)")
		return Sat, nil
	}
	return Sat, m
}

func (in *Interp) ensureModel() {
	if in.model != nil {
		return
	}
	res, m := in.check(nil)
	switch res {
	case Unsat:
		panic(abortf("INFEASIBLE", "path condition unsatisfiable"))
	case Unknown:
		panic(abortf("INCONCLUSIVE", "solver returned unknown for path condition: %s", in.sv.lastErr))
	}
	in.model = m
}

func (in *Interp) replaying() bool { return in.pos < len(in.prefix) }

func clonePrefix(d []Decision, extra Decision) []Decision {
	n := make([]Decision, len(d)+1)
	copy(n, d)
	for i := range d {
		n[i].Own = false
		n[i].Rest = nil
	}
	n[len(d)] = extra
	return n
}

// branch decides a symbolic boolean; returns the side taken on this path and
// queues the other side if feasible.
func (in *Interp) branch(c *Term) bool {
	if c.IsConst() {
		return c.val != 0
	}
	if in.replaying() {
		d := in.prefix[in.pos]
		if d.Kind != 'b' {
			panic(abortf("INTERNAL", "replay divergence: expected %c got branch at decision %d", d.Kind, in.pos))
		}
		in.pos++
		in.taken = append(in.taken, d)
		side := d.Pick == 1
		if side {
			in.addConstraint(c)
		} else {
			in.addConstraint(in.ts.Not(c))
		}
		return side
	}
	in.ensureModel()
	var side bool
	if in.model != nil {
		side = newEval(in.model).eval(c) != 0
	} else {
		// no usable model: query the true side explicitly
		r, _ := in.check(c)
		switch r {
		case Sat:
			side = true
		case Unsat:
			side = false
		default:
			panic(abortf("INCONCLUSIVE", "solver unknown at branch"))
		}
	}
	other := c
	if side {
		other = in.ts.Not(c)
	}
	r, m := in.check(other)
	pickOther := 1
	if side {
		pickOther = 0
	}
	switch r {
	case Sat:
		in.newWork = append(in.newWork, WorkItem{Prefix: clonePrefix(in.taken, Decision{Kind: 'b', N: 2, Pick: pickOther}), Model: m})
	case Unknown:
		in.inconcl = append(in.inconcl, "branch alternative unknown: "+in.sv.lastErr)
	}
	pick := 0
	if side {
		pick = 1
	}
	in.taken = append(in.taken, Decision{Kind: 'b', N: 2, Pick: pick})
	if side {
		in.addConstraint(c)
	} else {
		in.addConstraint(in.ts.Not(c))
	}
	return side
}

// choose picks one of the guarded alternatives (guards need not be exclusive
// or exhaustive); returns -1 if none is feasible.
func (in *Interp) choose(guards []*Term) int {
	if in.replaying() {
		d := in.prefix[in.pos]
		if d.Kind != 'c' || d.N != len(guards) {
			panic(abortf("INTERNAL", "replay divergence at choice %d", in.pos))
		}
		in.pos++
		in.taken = append(in.taken, d)
		in.addConstraint(guards[d.Pick])
		return d.Pick
	}
	first := -1
	var firstModel *Model
	for i, g := range guards {
		if g.IsConst() && g.val == 0 {
			continue
		}
		var r Result
		var m *Model
		if g.IsConst() {
			in.ensureModel()
			r, m = Sat, in.model
		} else {
			r, m = in.check(g)
		}
		if r == Unknown {
			in.inconcl = append(in.inconcl, "choice alternative unknown")
			continue
		}
		if r != Sat {
			continue
		}
		if first < 0 {
			first = i
			firstModel = m
			continue
		}
		in.newWork = append(in.newWork, WorkItem{Prefix: clonePrefix(in.taken, Decision{Kind: 'c', N: len(guards), Pick: i, Sched: in.schedChoice}), Model: m})
	}
	if first < 0 {
		return -1
	}
	in.taken = append(in.taken, Decision{Kind: 'c', N: len(guards), Pick: first, Sched: in.schedChoice})
	in.model = firstModel
	in.addConstraint(guards[first])
	return first
}

// concretize case-splits a BV term over its feasible values in [0,max].
func (in *Interp) concretize(t *Term, max int, what string) int {
	if t.IsConst() {
		return int(t.val)
	}
	// unwinding assertion: t may not exceed max
	over := in.ts.ULt(in.ts.BV(uint64(max), t.sort.W), t)
	if r, _ := in.check(over); r != Unsat {
		in.boundExceeded(fmt.Sprintf("%s may exceed %d", what, max))
		in.addConstraint(in.ts.Not(over))
	}
	guards := make([]*Term, max+1)
	for i := 0; i <= max; i++ {
		guards[i] = in.ts.Eq(t, in.ts.BV(uint64(i), t.sort.W))
	}
	k := in.choose(guards)
	if k < 0 {
		panic(abortf("INFEASIBLE", "no feasible value for %s", what))
	}
	return k
}

func (in *Interp) boundExceeded(msg string) {
	in.inconcl = append(in.inconcl, "BOUND-EXCEEDED: "+msg)
}

func (in *Interp) evalModel(t *Term) uint64 {
	if t.IsConst() {
		return t.val
	}
	in.ensureModel()
	if in.model == nil {
		return 0
	}
	return newEval(in.model).eval(t)
}

// ---------------------------------------------------------------------

func (in *Interp) violation(kind, label, site string, extra *Term) {
	// extra: condition under which the violation happens (nil => current pc)
	var m *Model
	if extra != nil {
		r, mm := in.check(extra)
		if r == Unsat {
			return
		}
		if r == Unknown {
			in.inconcl = append(in.inconcl, "assertion "+label+": solver unknown")
			return
		}
		m = mm
	} else {
		in.ensureModel()
		m = in.model
	}
	v := &Violation{Kind: kind, Label: label, Site: site, Model: m}
	v.Nondet = in.nondetOut(m)
	v.Emits = in.emitOut(m)
	v.Sched = append([]int(nil), in.schedLog...)
	v.Trace = in.stackTrace()
	if in.pendingTrace != nil {
		v.Trace = in.pendingTrace
	}
	in.viols = append(in.viols, v)
}

func (in *Interp) stackTrace() []string {
	var tr []string
	if in.cur == nil {
		return tr
	}
	for i := len(in.cur.frames) - 1; i >= 0; i-- {
		f := in.cur.frames[i]
		pos := ""
		if f.block != nil && f.pc < len(f.block.Instrs) {
			p := in.P.prog.Fset.Position(f.block.Instrs[f.pc].Pos())
			if p.IsValid() {
				pos = fmt.Sprintf(" %s:%d", trimPath(p.Filename), p.Line)
			}
		}
		tr = append(tr, f.fn.String()+pos)
	}
	return tr
}

func trimPath(p string) string {
	if i := strings.LastIndex(p, "/"); i >= 0 {
		return p[i+1:]
	}
	return p
}

func (in *Interp) nondetOut(m *Model) []NondetOut {
	if m == nil {
		return nil
	}
	ev := newEval(m)
	out := []NondetOut{}
	for _, nd := range in.nondets {
		o := NondetOut{Kind: nd.Kind, Name: nd.Name}
		switch nd.Kind {
		case "bytes", "string":
			n := ev.eval(nd.Len)
			o.Val = n
			o.Bytes = make([]uint8, 0, n)
			for i := uint64(0); i < n && i < uint64(nd.Max); i++ {
				o.Bytes = append(o.Bytes, uint8(ev.eval(in.ts.Select(nd.Arr, in.ts.BV(i, 64)))))
			}
		case "array":
			o.Val = uint64(nd.Max)
			for i := 0; i < nd.Max; i++ {
				o.Bytes = append(o.Bytes, uint8(ev.eval(in.ts.Select(nd.Arr, in.ts.BV(uint64(i), 64)))))
			}
		default:
			o.Val = ev.eval(nd.Term)
		}
		out = append(out, o)
	}
	return out
}

func (in *Interp) emitOut(m *Model) []EmitOut {
	if m == nil {
		return nil
	}
	ev := newEval(m)
	var out []EmitOut
	for _, e := range in.emits {
		out = append(out, EmitOut{e.Label, in.render(ev, e.Val)})
	}
	return out
}

// render produces a canonical textual form of a value under a model; the
// native vEmit produces the same form.
func (in *Interp) render(ev *evalCtx, v Value) string {
	switch x := v.(type) {
	case BVv:
		return fmt.Sprintf("%d", ev.eval(x.T))
	case Boolv:
		if ev.eval(x.T) != 0 {
			return "true"
		}
		return "false"
	case StrV:
		n := ev.eval(x.Len)
		off := ev.eval(x.Off)
		b := make([]byte, 0, n)
		if n > 1<<16 {
			return "<huge string>"
		}
		for i := uint64(0); i < n; i++ {
			b = append(b, byte(ev.eval(in.ts.Select(x.Arr, in.ts.BV(off+i, 64)))))
		}
		return fmt.Sprintf("%x", b)
	case BytesV:
		if x.Obj == nil {
			return ""
		}
		n := ev.eval(x.Len)
		off := ev.eval(x.Off)
		if n > 1<<16 {
			return "<huge bytes>"
		}
		b := make([]byte, 0, n)
		for i := uint64(0); i < n; i++ {
			b = append(b, byte(ev.eval(in.ts.Select(x.Obj.arr, in.ts.BV(off+i, 64)))))
		}
		return fmt.Sprintf("%x", b)
	case IfaceV:
		if x.T == nil {
			return "nil"
		}
		return in.render(ev, x.V)
	case StructV:
		parts := make([]string, len(x.F))
		for i, f := range x.F {
			parts[i] = in.render(ev, f)
		}
		return "{" + strings.Join(parts, ",") + "}"
	case Ptrv:
		if x.IsNil() {
			return "nil"
		}
		return "ptr"
	}
	return fmt.Sprintf("<%T>", v)
}

func sortedKeys(m map[string]int) []string {
	ks := make([]string, 0, len(m))
	for k := range m {
		ks = append(ks, k)
	}
	sort.Strings(ks)
	return ks
}

var _ = types.Typ
