package main

// Persistent SMT solver process driven over stdin/stdout with SMT-LIB2 text.

import (
	"bufio"
	"fmt"
	"io"
	"os"
	"os/exec"
	"strconv"
	"strings"
	"time"
)

type Result int

const (
	Unsat Result = iota
	Sat
	Unknown
)

func (r Result) String() string { return [...]string{"unsat", "sat", "unknown"}[r] }

type SolverStats struct {
	Sat, Unsat, Unknown int
	Errors              int
	Time                time.Duration
}

type Solver struct {
	kind    string
	cmd     *exec.Cmd
	in      *bufio.Writer
	inRaw   io.WriteCloser
	out     *bufio.Reader
	defined map[int]bool
	declVar map[string]bool
	Stats   SolverStats
	timeout int // ms
	log     *bufio.Writer
	lastErr string
}

func NewSolver(kind string, timeoutMS int) (*Solver, error) {
	s := &Solver{kind: kind, timeout: timeoutMS}
	var cmd *exec.Cmd
	switch kind {
	case "z3", "z3-new":
		cmd = exec.Command(kind, "-in", "-smt2")
	case "cvc5":
		cmd = exec.Command("cvc5", "--incremental", "--produce-models", "--lang=smt2", fmt.Sprintf("--tlimit-per=%d", timeoutMS))
	default:
		return nil, fmt.Errorf("unknown solver %q", kind)
	}
	stdin, err := cmd.StdinPipe()
	if err != nil {
		return nil, err
	}
	stdout, err := cmd.StdoutPipe()
	if err != nil {
		return nil, err
	}
	cmd.Stderr = os.Stderr
	if err := cmd.Start(); err != nil {
		return nil, err
	}
	s.cmd = cmd
	s.inRaw = stdin
	s.in = bufio.NewWriterSize(stdin, 1<<16)
	s.out = bufio.NewReaderSize(stdout, 1<<16)
	if p := os.Getenv("GOSMT_SMTLOG"); p != "" {
		f, err := os.OpenFile(fmt.Sprintf("%s.%d", p, cmd.Process.Pid), os.O_CREATE|os.O_WRONLY|os.O_TRUNC, 0o644)
		if err == nil {
			s.log = bufio.NewWriter(f)
		}
	}
	s.Reset()
	return s, nil
}

func (s *Solver) send(str string) {
	s.in.WriteString(str)
	s.in.WriteByte('\n')
	if s.log != nil {
		s.log.WriteString(str)
		s.log.WriteByte('\n')
	}
}

func (s *Solver) Close() {
	if s.cmd == nil {
		return
	}
	s.send("(exit)")
	s.in.Flush()
	s.inRaw.Close()
	done := make(chan struct{})
	go func() { s.cmd.Wait(); close(done) }()
	select {
	case <-done:
	case <-time.After(2 * time.Second):
		s.cmd.Process.Kill()
	}
	if s.log != nil {
		s.log.Flush()
	}
	s.cmd = nil
}

// Reset clears all assertions and declarations.
func (s *Solver) Reset() {
	s.send("(reset)")
	switch s.kind {
	case "cvc5":
		s.send("(set-logic ALL)")
	default:
		s.send("(set-option :produce-models true)")
		s.send(fmt.Sprintf("(set-option :timeout %d)", s.timeout))
	}
	s.defined = map[int]bool{}
	s.declVar = map[string]bool{}
}

// define makes sure t (and its sub-DAG) has been introduced to the solver.
func (s *Solver) define(t *Term) {
	// iterative post-order
	type fr struct {
		t *Term
		i int
	}
	if t.op == OpConst || s.defined[t.id] {
		return
	}
	stack := []fr{{t, 0}}
	for len(stack) > 0 {
		f := &stack[len(stack)-1]
		if f.i < len(f.t.args) {
			a := f.t.args[f.i]
			f.i++
			if a.op != OpConst && !s.defined[a.id] {
				stack = append(stack, fr{a, 0})
			}
			continue
		}
		tt := f.t
		stack = stack[:len(stack)-1]
		if s.defined[tt.id] {
			continue
		}
		s.defined[tt.id] = true
		if tt.op == OpVar {
			if !s.declVar[tt.name] {
				s.declVar[tt.name] = true
				s.send(fmt.Sprintf("(declare-fun %s () %s)", tt.name, tt.sort))
			}
			continue
		}
		s.send(fmt.Sprintf("(define-fun %s () %s %s)", smtName(tt), tt.sort, smtBody(tt)))
	}
}

func (s *Solver) Assert(t *Term) {
	if t.op == OpConst {
		if t.val == 0 {
			s.send("(assert false)")
		}
		return
	}
	s.define(t)
	s.send(fmt.Sprintf("(assert %s)", smtRef(t)))
}

func (s *Solver) readLine() (string, error) {
	line, err := s.out.ReadString('\n')
	if err != nil {
		return "", err
	}
	return strings.TrimSpace(line), nil
}

// readSexp reads one balanced s-expression (possibly spanning lines).
func (s *Solver) readSexp() (string, error) {
	var sb strings.Builder
	depth := 0
	started := false
	inStr := false
	for {
		c, err := s.out.ReadByte()
		if err != nil {
			return sb.String(), err
		}
		sb.WriteByte(c)
		if inStr {
			if c == '"' {
				inStr = false
			}
			continue
		}
		switch c {
		case '"':
			inStr = true
			started = true
		case '(':
			depth++
			started = true
		case ')':
			depth--
			if depth == 0 && started {
				return sb.String(), nil
			}
		case ' ', '\n', '\t', '\r':
			if started && depth == 0 {
				return strings.TrimSpace(sb.String()), nil
			}
		default:
			started = true
		}
	}
}

// CheckWith decides satisfiability of the asserted formulas plus extra
// (may be nil). If sat and wantModel, values for the given query terms are
// returned (in order).
func (s *Solver) CheckWith(extra *Term, query []*Term) (Result, []uint64) {
	start := time.Now()
	defer func() { s.Stats.Time += time.Since(start) }()
	errBefore := s.Stats.Errors
	if extra != nil {
		if extra.op == OpConst {
			if extra.val == 0 {
				s.Stats.Unsat++
				return Unsat, nil
			}
			extra = nil
		}
	}
	if extra != nil {
		s.define(extra)
	}
	for _, q := range query {
		s.define(q)
	}
	s.send("(push 1)")
	if extra != nil {
		s.send(fmt.Sprintf("(assert %s)", smtRef(extra)))
	}
	s.send("(check-sat)")
	s.in.Flush()
	res := Unknown
	for {
		line, err := s.readLine()
		if err != nil {
			s.lastErr = "solver died: " + err.Error()
			s.Stats.Errors++
			s.Stats.Unknown++
			return Unknown, nil
		}
		if line == "" {
			continue
		}
		if strings.HasPrefix(line, "(error") {
			s.lastErr = line
			s.Stats.Errors++
			// swallow possibly multi-line error: assume single line
			continue
		}
		switch line {
		case "sat":
			res = Sat
		case "unsat":
			res = Unsat
		case "unknown", "timeout":
			res = Unknown
		default:
			s.lastErr = "unexpected solver output: " + line
			s.Stats.Errors++
			continue
		}
		break
	}
	if s.Stats.Errors > errBefore {
		// an (error ...) line was seen since the last answer: inconclusive
		res = Unknown
	}
	var vals []uint64
	if res == Sat && len(query) > 0 {
		var sb strings.Builder
		sb.WriteString("(get-value (")
		for _, q := range query {
			sb.WriteString(smtRef(q))
			sb.WriteByte(' ')
		}
		sb.WriteString("))")
		s.send(sb.String())
		s.in.Flush()
		txt, err := s.readSexp()
		if err != nil || strings.HasPrefix(strings.TrimSpace(txt), "(error") {
			s.lastErr = "get-value failed: " + txt
			s.Stats.Errors++
			res = Unknown
		} else {
			vals, err = parseValues(txt, len(query))
			if err != nil {
				s.lastErr = "get-value parse: " + err.Error() + ": " + txt
				s.Stats.Errors++
				res = Unknown
			}
		}
	}
	s.send("(pop 1)")
	switch res {
	case Sat:
		s.Stats.Sat++
	case Unsat:
		s.Stats.Unsat++
	default:
		s.Stats.Unknown++
	}
	return res, vals
}

// parseValues parses "((e v) (e v) ...)" and returns the v's.
func parseValues(txt string, n int) ([]uint64, error) {
	toks := tokenize(txt)
	pos := 0
	if pos >= len(toks) || toks[pos] != "(" {
		return nil, fmt.Errorf("expected (")
	}
	pos++
	vals := make([]uint64, 0, n)
	for pos < len(toks) && toks[pos] == "(" {
		// parse pair: skip key sexp, then value sexp
		pos++
		var err error
		pos, err = skipSexp(toks, pos)
		if err != nil {
			return nil, err
		}
		vstart := pos
		pos, err = skipSexp(toks, pos)
		if err != nil {
			return nil, err
		}
		v, err := parseVal(toks[vstart:pos])
		if err != nil {
			return nil, err
		}
		vals = append(vals, v)
		if pos >= len(toks) || toks[pos] != ")" {
			return nil, fmt.Errorf("expected ) after pair")
		}
		pos++
	}
	if len(vals) != n {
		return nil, fmt.Errorf("got %d values, want %d", len(vals), n)
	}
	return vals, nil
}

func tokenize(txt string) []string {
	var toks []string
	i := 0
	for i < len(txt) {
		c := txt[i]
		switch {
		case c == '(' || c == ')':
			toks = append(toks, string(c))
			i++
		case c == ' ' || c == '\n' || c == '\t' || c == '\r':
			i++
		default:
			j := i
			for j < len(txt) && !strings.ContainsRune("() \n\t\r", rune(txt[j])) {
				j++
			}
			toks = append(toks, txt[i:j])
			i = j
		}
	}
	return toks
}

func skipSexp(toks []string, pos int) (int, error) {
	if pos >= len(toks) {
		return pos, fmt.Errorf("eof")
	}
	if toks[pos] != "(" {
		return pos + 1, nil
	}
	depth := 0
	for pos < len(toks) {
		if toks[pos] == "(" {
			depth++
		} else if toks[pos] == ")" {
			depth--
			if depth == 0 {
				return pos + 1, nil
			}
		}
		pos++
	}
	return pos, fmt.Errorf("unbalanced")
}

func parseVal(toks []string) (uint64, error) {
	if len(toks) == 1 {
		t := toks[0]
		switch {
		case t == "true":
			return 1, nil
		case t == "false":
			return 0, nil
		case strings.HasPrefix(t, "#x"):
			return strconv.ParseUint(t[2:], 16, 64)
		case strings.HasPrefix(t, "#b"):
			return strconv.ParseUint(t[2:], 2, 64)
		}
	}
	// (_ bvN w)
	if len(toks) == 5 && toks[0] == "(" && toks[1] == "_" && strings.HasPrefix(toks[2], "bv") {
		return strconv.ParseUint(toks[2][2:], 10, 64)
	}
	return 0, fmt.Errorf("cannot parse value %v", toks)
}
