package main

import (
	"go/types"

	"golang.org/x/tools/go/ssa"
)

// harnessIntrinsic maps the v* API of the harness prelude to engine code.
func harnessIntrinsic(fn *ssa.Function) (Intrinsic, bool) {
	if fn.Signature.Recv() != nil {
		return nil, false
	}
	h, ok := harnessAPI[fn.Name()]
	return h, ok
}

var harnessAPI map[string]Intrinsic

func init() {
	harnessAPI = map[string]Intrinsic{
		"vNondetU8":     func(in *Interp, th *Thread, a []Value, fn *ssa.Function) (Value, callStatus) { return in.nondetBV("u8", 8), csDone },
		"vNondetU16":    func(in *Interp, th *Thread, a []Value, fn *ssa.Function) (Value, callStatus) { return in.nondetBV("u16", 16), csDone },
		"vNondetU32":    func(in *Interp, th *Thread, a []Value, fn *ssa.Function) (Value, callStatus) { return in.nondetBV("u32", 32), csDone },
		"vNondetU64":    func(in *Interp, th *Thread, a []Value, fn *ssa.Function) (Value, callStatus) { return in.nondetBV("u64", 64), csDone },
		"vNondetInt":    func(in *Interp, th *Thread, a []Value, fn *ssa.Function) (Value, callStatus) { return in.nondetBV("int", 64), csDone },
		"vNondetI64":    func(in *Interp, th *Thread, a []Value, fn *ssa.Function) (Value, callStatus) { return in.nondetBV("i64", 64), csDone },
		"vNondetBool":   hNondetBool,
		"vNondetBytes":  hNondetBytes,
		"vNondetString": hNondetString,
		"vNondetArray":  hNondetArray,
		// vHavocBytes(n): n bytes of unconstrained content that is not part of
		// the witness (dirty memory)
		"vHavocBytes": func(in *Interp, th *Thread, a []Value, fn *ssa.Function) (Value, callStatus) {
			n := in.concreteInt(a[0], "vHavocBytes length")
			arr := in.ts.Var(in.freshName("havoc")+"_a", ArrSort)
			nn := in.bv64(n)
			obj := in.newByteObj(arr, nn, n)
			return BytesV{obj, in.bv64(0), nn, nn}, csDone
		},
		"vNondetBytesC": func(in *Interp, th *Thread, a []Value, fn *ssa.Function) (Value, callStatus) {
			v, st := hNondetBytes(in, th, a, fn)
			b := v.(BytesV)
			n := in.bv64(in.concretize(b.Len, in.concreteInt(a[0], "bound"), "vNondetBytesC length"))
			b.Obj.n, b.Len, b.Cap = n, n, n
			return b, st
		},
		"vNondetStringC": func(in *Interp, th *Thread, a []Value, fn *ssa.Function) (Value, callStatus) {
			v, st := hNondetString(in, th, a, fn)
			s := v.(StrV)
			k := in.concretize(s.Len, in.concreteInt(a[0], "bound"), "vNondetStringC length")
			s.Len, s.Max = in.bv64(k), k
			return s, st
		},
		"vChoice":       hChoice,
		"vAssume":       hAssume,
		"vAssert":       hAssert,
		"vReach":        hReach,
		"vEmit":         hEmit,
		"vYield":        func(in *Interp, th *Thread, a []Value, fn *ssa.Function) (Value, callStatus) { return nil, csDone },
		"vConsumed":     hConsumed,
		"vQuiesce":      func(in *Interp, th *Thread, a []Value, fn *ssa.Function) (Value, callStatus) { return nil, csDone },
		"vSliceLen":     hSliceLen,
		"vSliceSwap":    hSliceSwap,
		"vComparable":   hComparable,
		"vAssignTo":     hAssignTo,
		"vFlatEncode":   hFlatEncode,
		"vFlatDecode":   hFlatDecode,
		"vFlatSize":     hFlatSize,
		"vConcrete":     hConcrete,
		"vSymbolic":     func(in *Interp, th *Thread, a []Value, fn *ssa.Function) (Value, callStatus) { return Boolv{in.ts.True}, csDone },
		"vOpaqueString": func(in *Interp, th *Thread, a []Value, fn *ssa.Function) (Value, callStatus) { return in.opaqueString("harness"), csDone },
		"vExpectPanic":  hExpectPanic,
		"vBytesEq":      iBytesEqual,
		"vAnd": func(in *Interp, th *Thread, a []Value, fn *ssa.Function) (Value, callStatus) {
			return Boolv{in.ts.And(a[0].(Boolv).T, a[1].(Boolv).T)}, csDone
		},
		"vOr": func(in *Interp, th *Thread, a []Value, fn *ssa.Function) (Value, callStatus) {
			return Boolv{in.ts.Or(a[0].(Boolv).T, a[1].(Boolv).T)}, csDone
		},
		"vImplies": func(in *Interp, th *Thread, a []Value, fn *ssa.Function) (Value, callStatus) {
			return Boolv{in.ts.Or(in.ts.Not(a[0].(Boolv).T), a[1].(Boolv).T)}, csDone
		},
		"vThorough":     func(in *Interp, th *Thread, a []Value, fn *ssa.Function) (Value, callStatus) { return Boolv{in.ts.Bool(in.cfg.Thorough)}, csDone },
		"vGoroutines":   func(in *Interp, th *Thread, a []Value, fn *ssa.Function) (Value, callStatus) { return BVv{in.bv64(len(in.liveThreads()))}, csDone },
		"vAllocBytes":   func(in *Interp, th *Thread, a []Value, fn *ssa.Function) (Value, callStatus) { return BVv{in.allocTotal}, csDone },
		"vTypeName":     hTypeName,
	}
}

func (in *Interp) nondetBV(kind string, w int) Value {
	name := in.freshName("nd_" + kind)
	t := in.ts.Var(name, BVSort(w))
	in.nondets = append(in.nondets, NondetRec{Kind: kind, Name: name, Term: t, W: w})
	return BVv{t}
}

func hNondetBool(in *Interp, th *Thread, a []Value, fn *ssa.Function) (Value, callStatus) {
	name := in.freshName("nd_bool")
	t := in.ts.Var(name, BoolSort)
	in.nondets = append(in.nondets, NondetRec{Kind: "bool", Name: name, Term: t})
	return Boolv{t}, csDone
}

func (in *Interp) concreteInt(v Value, what string) int {
	t := v.(BVv).T
	if !t.IsConst() {
		panic(abortf("UNSUPPORTED", "%s must be concrete", what))
	}
	return int(int64(t.val))
}

func (in *Interp) nondetBytesObj(kind string, max int) (arr, ln *Term) {
	name := in.freshName("nd_" + kind)
	arr = in.ts.Var(name+"_a", ArrSort)
	ln = in.ts.Var(name+"_n", BVSort(64))
	in.nondets = append(in.nondets, NondetRec{Kind: kind, Name: name, Max: max, Arr: arr, Len: ln})
	in.arrBound["len:"+ln.name] = max
	in.addConstraint(in.ts.ULe(ln, in.bv64(max)))
	return
}

func hNondetBytes(in *Interp, th *Thread, a []Value, fn *ssa.Function) (Value, callStatus) {
	max := in.concreteInt(a[0], "vNondetBytes bound")
	arr, ln := in.nondetBytesObj("bytes", max)
	obj := in.newByteObj(arr, ln, max)
	return BytesV{obj, in.bv64(0), ln, ln}, csDone
}

func hNondetString(in *Interp, th *Thread, a []Value, fn *ssa.Function) (Value, callStatus) {
	max := in.concreteInt(a[0], "vNondetString bound")
	arr, ln := in.nondetBytesObj("string", max)
	return StrV{Arr: arr, Off: in.bv64(0), Len: ln, Max: max}, csDone
}

// vNondetArray(n): []byte of exactly n bytes with arbitrary content
func hNondetArray(in *Interp, th *Thread, a []Value, fn *ssa.Function) (Value, callStatus) {
	n := in.concreteInt(a[0], "vNondetArray length")
	name := in.freshName("nd_array")
	arr := in.ts.Var(name+"_a", ArrSort)
	in.nondets = append(in.nondets, NondetRec{Kind: "array", Name: name, Max: n, Arr: arr})
	nn := in.bv64(n)
	obj := in.newByteObj(arr, nn, n)
	return BytesV{obj, in.bv64(0), nn, nn}, csDone
}

func hChoice(in *Interp, th *Thread, a []Value, fn *ssa.Function) (Value, callStatus) {
	n := in.concreteInt(a[0], "vChoice bound")
	v := in.nondetBV("choice", 64).(BVv)
	in.addConstraint(in.ts.ULt(v.T, in.bv64(n)))
	k := in.concretize(v.T, n-1, "vChoice")
	return BVv{in.bv64(k)}, csDone
}

func hConcrete(in *Interp, th *Thread, a []Value, fn *ssa.Function) (Value, callStatus) {
	max := in.concreteInt(a[1], "vConcrete bound")
	k := in.concretize(a[0].(BVv).T, max, "vConcrete")
	return BVv{in.bv64(k)}, csDone
}

func hAssume(in *Interp, th *Thread, a []Value, fn *ssa.Function) (Value, callStatus) {
	c := a[0].(Boolv).T
	if c.IsConst() {
		if c.val == 0 {
			panic(abortf("INFEASIBLE", "assumption false"))
		}
		return nil, csDone
	}
	in.addConstraint(c)
	if in.model == nil {
		r, m := in.check(nil)
		switch r {
		case Unsat:
			panic(abortf("INFEASIBLE", "assumption unsatisfiable"))
		case Unknown:
			panic(abortf("INCONCLUSIVE", "solver unknown at assumption"))
		}
		in.model = m
	}
	return nil, csDone
}

func hAssert(in *Interp, th *Thread, a []Value, fn *ssa.Function) (Value, callStatus) {
	c := a[0].(Boolv).T
	label, _ := in.strConcrete(a[1].(StrV))
	in.reached["assert:"+label] = true
	if c.IsConst() && c.val != 0 {
		return nil, csDone
	}
	site := ""
	if len(th.frames) > 0 {
		site = in.siteOf(th.frames[len(th.frames)-1])
	}
	in.violation("assert", label, site, in.ts.Not(c))
	// continue under the assumption that the assertion holds
	if c.IsConst() {
		panic(abortf("STOP", "assertion failed on every continuation"))
	}
	r, m := in.check(c)
	if r == Unsat {
		panic(abortf("STOP", "assertion fails on all inputs of this path"))
	}
	in.addConstraint(c)
	if m != nil {
		in.model = m
	}
	return nil, csDone
}

func hReach(in *Interp, th *Thread, a []Value, fn *ssa.Function) (Value, callStatus) {
	label, _ := in.strConcrete(a[0].(StrV))
	in.reached[label] = true
	return nil, csDone
}

func hEmit(in *Interp, th *Thread, a []Value, fn *ssa.Function) (Value, callStatus) {
	label, _ := in.strConcrete(a[0].(StrV))
	in.emits = append(in.emits, EmitRec{label, a[1]})
	return nil, csDone
}

func hConsumed(in *Interp, th *Thread, a []Value, fn *ssa.Function) (Value, callStatus) {
	in.consumedBytes = a[0].(BVv).T
	in.allocTotal = in.bv64(0)
	return nil, csDone
}

func hExpectPanic(in *Interp, th *Thread, a []Value, fn *ssa.Function) (Value, callStatus) {
	return nil, csDone
}

func hSliceLen(in *Interp, th *Thread, a []Value, fn *ssa.Function) (Value, callStatus) {
	iv := a[0].(IfaceV)
	switch s := iv.V.(type) {
	case SliceV:
		return BVv{in.bv64(s.Len)}, csDone
	case BytesV:
		return BVv{s.Len}, csDone
	}
	panic(abortf("UNSUPPORTED", "vSliceLen on %T", iv.V))
}

func hSliceSwap(in *Interp, th *Thread, a []Value, fn *ssa.Function) (Value, callStatus) {
	iv := a[0].(IfaceV)
	s, ok := iv.V.(SliceV)
	if !ok {
		panic(abortf("UNSUPPORTED", "vSliceSwap on %T", iv.V))
	}
	i := in.concreteInt(a[1], "swap index")
	j := in.concreteInt(a[2], "swap index")
	ci, cj := s.Back.cells[s.Off+i], s.Back.cells[s.Off+j]
	vi, vj := in.load(ci), in.load(cj)
	in.store(ci, vj)
	in.store(cj, vi)
	return nil, csDone
}

func hComparable(in *Interp, th *Thread, a []Value, fn *ssa.Function) (Value, callStatus) {
	iv := a[0].(IfaceV)
	if iv.T == nil {
		return Boolv{in.ts.True}, csDone
	}
	return Boolv{in.ts.Bool(types.Comparable(iv.T))}, csDone
}

// vAssignTo(err error, target any) bool: errors.As core step: if err's
// dynamic type is assignable to *target's element type, store it.
func hAssignTo(in *Interp, th *Thread, a []Value, fn *ssa.Function) (Value, callStatus) {
	ev := a[0].(IfaceV)
	tv := a[1].(IfaceV)
	if tv.T == nil {
		in.startPanic(th, IfaceV{T: types.Typ[types.String], V: in.constStr("errors: target cannot be nil")}, "errors.As: nil target")
		return nil, csPanicked
	}
	pt, ok := tv.T.Underlying().(*types.Pointer)
	if !ok {
		in.startPanic(th, IfaceV{T: types.Typ[types.String], V: in.constStr("errors: target must be a non-nil pointer")}, "errors.As: bad target")
		return nil, csPanicked
	}
	if ev.T == nil {
		return Boolv{in.ts.False}, csDone
	}
	et := pt.Elem()
	p := tv.V.(Ptrv)
	if it, isIface := et.Underlying().(*types.Interface); isIface {
		if in.implements(ev.T, it) {
			in.storePtr(th, p, ev)
			return Boolv{in.ts.True}, csDone
		}
		return Boolv{in.ts.False}, csDone
	}
	if types.Identical(ev.T, et) {
		in.storePtr(th, p, ev.V)
		return Boolv{in.ts.True}, csDone
	}
	return Boolv{in.ts.False}, csDone
}

// flat big-endian encoding of a pointer to a struct of fixed-width integers
func (in *Interp) flatFields(v Value) (cells []*Cell) {
	iv := v.(IfaceV)
	p, ok := iv.V.(Ptrv)
	if !ok || p.Cell == nil || p.Cell.fields == nil {
		panic(abortf("UNSUPPORTED", "binary.Read/Write of %v", iv.T))
	}
	return p.Cell.fields
}

func hFlatSize(in *Interp, th *Thread, a []Value, fn *ssa.Function) (Value, callStatus) {
	n := 0
	for _, c := range in.flatFields(a[0]) {
		w, _, ok := typeIntWidth(c.typ)
		if !ok {
			panic(abortf("UNSUPPORTED", "binary.* of non-integer field %v", c.typ))
		}
		n += w / 8
	}
	return BVv{in.bv64(n)}, csDone
}

func hFlatEncode(in *Interp, th *Thread, a []Value, fn *ssa.Function) (Value, callStatus) {
	ts := in.ts
	arr := ts.ConstArr(0)
	pos := 0
	for _, c := range in.flatFields(a[0]) {
		w, _, ok := typeIntWidth(c.typ)
		if !ok {
			panic(abortf("UNSUPPORTED", "binary.Write of non-integer field %v", c.typ))
		}
		t := c.v.(BVv).T
		for b := w/8 - 1; b >= 0; b-- {
			arr = ts.StoreArr(arr, in.bv64(pos), ts.Extract(t, b*8+7, b*8))
			pos++
		}
	}
	n := in.bv64(pos)
	in.noteAlloc(n)
	obj := in.newByteObj(arr, n, pos)
	return BytesV{obj, in.bv64(0), n, n}, csDone
}

func hFlatDecode(in *Interp, th *Thread, a []Value, fn *ssa.Function) (Value, callStatus) {
	ts := in.ts
	b := a[1].(BytesV)
	pos := 0
	for _, c := range in.flatFields(a[0]) {
		w, _, _ := typeIntWidth(c.typ)
		var t *Term
		for k := 0; k < w/8; k++ {
			by := ts.Select(b.Obj.arr, ts.Add(b.Off, in.bv64(pos)))
			if t == nil {
				t = by
			} else {
				t = ts.Concat(t, by)
			}
			pos++
		}
		c.v = BVv{t}
	}
	return nil, csDone
}

func hTypeName(in *Interp, th *Thread, a []Value, fn *ssa.Function) (Value, callStatus) {
	iv := a[0].(IfaceV)
	if iv.T == nil {
		return in.constStr("<nil>"), csDone
	}
	return in.constStr(types.TypeString(iv.T, func(p *types.Package) string { return p.Name() })), csDone
}
