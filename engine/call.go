package main

import (
	"go/types"
	"strings"

	"golang.org/x/tools/go/ssa"
)

// prepareCall evaluates callee and arguments. Returns nil fn if it panicked.
func (in *Interp) prepareCall(th *Thread, fr *Frame, call *ssa.CallCommon) (Value, []Value) {
	args := make([]Value, 0, len(call.Args)+1)
	var fnv Value
	if call.IsInvoke() {
		recv := in.get(fr, call.Value).(IfaceV)
		if recv.T == nil {
			in.runtimePanic(th, "invalid memory address or nil pointer dereference (method call on nil interface)")
			return nil, nil
		}
		m := in.P.prog.LookupMethod(recv.T, call.Method.Pkg(), call.Method.Name())
		if m == nil {
			panic(abortf("INTERNAL", "method %s not found on %s", call.Method.Name(), recv.T))
		}
		fnv = FuncV{Fn: m}
		args = append(args, recv.V)
	} else {
		fnv = in.get(fr, call.Value)
	}
	for _, a := range call.Args {
		args = append(args, in.get(fr, a))
	}
	return fnv, args
}

func (in *Interp) execCall(th *Thread, fr *Frame, x *ssa.Call) bool {
	fnv, args := in.prepareCall(th, fr, &x.Call)
	if fnv == nil {
		return true
	}
	in.callValue(th, fnv, args, x, nil, false)
	return true
}

// deliver hands the result of an immediately-completed call to the caller.
func (in *Interp) deliver(th *Thread, retTo ssa.Value, onRet func(Value), res Value) {
	if onRet != nil {
		onRet(res)
		return
	}
	if len(th.frames) == 0 {
		th.done = true
		return
	}
	caller := th.frames[len(th.frames)-1]
	if retTo != nil {
		caller.env[retTo] = res
	}
	caller.pc++
}

type callStatus int

const (
	csDone callStatus = iota
	csPanicked
	csTail // res is TailCall
)

type TailCall struct {
	Fn   Value
	Args []Value
}

type Intrinsic func(in *Interp, th *Thread, args []Value, fn *ssa.Function) (Value, callStatus)

func (in *Interp) callValue(th *Thread, fnv Value, args []Value, retTo ssa.Value, onRet func(Value), byPanic bool) {
	for {
		switch f := fnv.(type) {
		case *ssa.Builtin:
			res, ok := in.builtin(th, f, args)
			if !ok {
				return
			}
			in.deliver(th, retTo, onRet, res)
			return
		case FuncV:
			if f.Fn == nil {
				in.runtimePanic(th, "call of nil function")
				return
			}
			fn := f.Fn
			name := fn.String()
			if r, ok := in.P.redirects[name]; ok {
				nf := in.P.funcs[r]
				if nf == nil {
					panic(abortf("INTERNAL", "redirect target %s not found", r))
				}
				fn = nf
				name = r
				f = FuncV{Fn: nf}
			}
			if h, ok := intrinsics[name]; ok {
				res, st := h(in, th, args, fn)
				switch st {
				case csPanicked:
					return
				case csTail:
					tc := res.(TailCall)
					fnv, args = tc.Fn, tc.Args
					continue
				}
				in.deliver(th, retTo, onRet, res)
				return
			}
			if strings.HasPrefix(name, "v") || strings.Contains(name, ".v") {
				if h, ok := harnessIntrinsic(fn); ok {
					res, st := h(in, th, args, fn)
					if st == csPanicked {
						return
					}
					in.deliver(th, retTo, onRet, res)
					return
				}
			}
			if fn.Pkg != nil && fn.Name() == "init" && fn.Signature.Recv() == nil && !in.allowInit(fn.Pkg) {
				in.deliver(th, retTo, onRet, nil)
				return
			}
			if len(fn.Blocks) == 0 {
				panic(abortf("UNMODELLED", "external function %s", name))
			}
			fr := in.pushFrame(th, fn, args, f.Bindings, retTo)
			fr.onRet = onRet
			fr.byPanic = byPanic
			return
		default:
			panic(abortf("INTERNAL", "call of %T", fnv))
		}
	}
}

var initWhitelist = map[string]bool{
	"io": true, "io/fs": true, "internal/oserror": true, "path": true, "path/filepath": true,
	"unicode/utf8": true, "bytes": true, "io/ioutil": true,
}

func (in *Interp) allowInit(p *ssa.Package) bool {
	path := p.Pkg.Path()
	if strings.HasPrefix(path, "github.com/pkg/sftp") {
		return true
	}
	return initWhitelist[path]
}

// ---------------------------------------------------------------------
// builtins

func (in *Interp) builtin(th *Thread, b *ssa.Builtin, args []Value) (Value, bool) {
	ts := in.ts
	switch b.Name() {
	case "len":
		switch x := args[0].(type) {
		case BytesV:
			return BVv{x.Len}, true
		case StrV:
			return BVv{x.Len}, true
		case SliceV:
			return BVv{in.bv64(x.Len)}, true
		case MapV:
			if x.M == nil {
				return BVv{in.bv64(0)}, true
			}
			return BVv{in.bv64(len(x.M.keys))}, true
		case ChanV:
			if x.C == nil {
				return BVv{in.bv64(0)}, true
			}
			return BVv{in.bv64(len(x.C.buf))}, true
		case ArrayV:
			return BVv{in.bv64(len(x.E))}, true
		case ByteArrV:
			return BVv{in.bv64(x.N)}, true
		case Ptrv:
			if x.Cell != nil && x.Cell.bobj != nil {
				return BVv{x.Cell.bobj.n}, true
			}
			if x.Cell != nil {
				return BVv{in.bv64(len(x.Cell.elems))}, true
			}
		}
	case "cap":
		switch x := args[0].(type) {
		case BytesV:
			return BVv{x.Cap}, true
		case SliceV:
			return BVv{in.bv64(x.Cap)}, true
		case ChanV:
			if x.C == nil {
				return BVv{in.bv64(0)}, true
			}
			return BVv{in.bv64(x.C.cap)}, true
		}
	case "append":
		return in.appendOp(th, b, args)
	case "copy":
		return in.copyOp(th, args)
	case "delete":
		m := args[0].(MapV)
		in.mapDelete(m.M, args[1])
		return nil, true
	case "close":
		c := args[0].(ChanV)
		if c.C == nil {
			in.runtimePanic(th, "close of nil channel")
			return nil, false
		}
		if c.C.closed {
			in.runtimePanic(th, "close of closed channel")
			return nil, false
		}
		in.touch(c.C.id)
		c.C.closed = true
		in.wakeOnClose(c.C)
		return nil, true
	case "panic":
		in.startPanic(th, args[0], "panic")
		return nil, false
	case "recover":
		// valid only when called directly by a deferred function during panicking
		fr := th.frames[len(th.frames)-1]
		if th.panicV != nil && !th.panicV.recovered && fr.byPanic {
			th.panicV.recovered = true
			return th.panicV.val, true
		}
		return IfaceV{}, true
	case "min", "max":
		r := args[0].(BVv).T
		sig := b.Type().(*types.Signature)
		_, signed, _ := typeIntWidth(sig.Params().At(0).Type())
		for _, a := range args[1:] {
			y := a.(BVv).T
			var lt *Term
			if signed {
				lt = ts.SLt(y, r)
			} else {
				lt = ts.ULt(y, r)
			}
			if b.Name() == "max" {
				lt = ts.Not(ts.Or(lt, ts.Eq(y, r)))
			}
			r = ts.Ite(lt, y, r)
		}
		return BVv{r}, true
	case "print", "println":
		return nil, true
	}
	panic(abortf("UNSUPPORTED", "builtin %s on %T", b.Name(), args[0]))
}

func (in *Interp) appendOp(th *Thread, b *ssa.Builtin, args []Value) (Value, bool) {
	ts := in.ts
	switch dst := args[0].(type) {
	case BytesV:
		// source: []byte or string
		var sArr, sOff, sLen *Term
		sMax := 0
		switch s := args[1].(type) {
		case BytesV:
			if s.Obj == nil {
				return dst, true
			}
			sArr, sOff, sLen, sMax = s.Obj.arr, s.Off, s.Len, s.Obj.max
		case StrV:
			sArr, sOff, sLen, sMax = s.Arr, s.Off, s.Len, s.Max
		default:
			panic(abortf("UNSUPPORTED", "append source %T", args[1]))
		}
		if sLen.IsConst() && sLen.val == 0 {
			return dst, true
		}
		newLen := ts.Add(dst.Len, sLen)
		fits := ts.ULe(newLen, dst.Cap)
		if dst.Obj != nil && in.branch(fits) {
			dst.Obj.arr = in.copyBytes(dst.Obj.arr, ts.Add(dst.Off, dst.Len), sArr, sOff, sLen, sMax)
			return BytesV{dst.Obj, dst.Off, newLen, dst.Cap}, true
		}
		if dst.Obj == nil && !in.branch(ts.ULt(in.bv64(0), sLen)) {
			return dst, true
		}
		// reallocate: new object of exactly newLen bytes
		in.noteAlloc(newLen)
		arr := ts.ConstArr(0)
		dmax := 0
		if dst.Obj != nil {
			arr = in.copyBytes(arr, in.bv64(0), dst.Obj.arr, dst.Off, dst.Len, dst.Obj.max)
			dmax = dst.Obj.max
		}
		arr = in.copyBytes(arr, dst.Len, sArr, sOff, sLen, sMax)
		mx := dmax + sMax
		if dmax == maxInt || sMax == maxInt {
			mx = maxInt
		}
		if ub := in.ubound(newLen); ub < mx {
			mx = ub
		}
		obj := in.newByteObj(arr, newLen, mx)
		return BytesV{obj, in.bv64(0), newLen, newLen}, true
	case SliceV:
		src, ok := args[1].(SliceV)
		if !ok {
			panic(abortf("UNSUPPORTED", "append source %T", args[1]))
		}
		if src.Len == 0 {
			return dst, true
		}
		et := b.Type().(*types.Signature).Params().At(0).Type().Underlying().(*types.Slice).Elem()
		newLen := dst.Len + src.Len
		vals := make([]Value, src.Len)
		for i := 0; i < src.Len; i++ {
			vals[i] = in.load(src.Back.cells[src.Off+i])
		}
		if dst.Back != nil && newLen <= dst.Cap {
			for i, v := range vals {
				in.store(dst.Back.cells[dst.Off+dst.Len+i], v)
			}
			return SliceV{dst.Back, dst.Off, newLen, dst.Cap}, true
		}
		// growth as the Go runtime does it for small slices: the capacity doubles
		// (so that len and cap differ after an append, as they do natively; a
		// model with cap == len hides every cap-for-len confusion)
		newCap := newLen
		if dst.Cap > 0 && 2*dst.Cap > newCap {
			newCap = 2 * dst.Cap
		}
		in.noteAlloc(in.bv64(newCap * in.sizeof(et)))
		in.objCount++
		nb := &Backing{id: in.objCount, cells: make([]*Cell, newCap)}
		for i := 0; i < dst.Len; i++ {
			nb.cells[i] = in.newCell(et)
			in.store(nb.cells[i], in.load(dst.Back.cells[dst.Off+i]))
		}
		for i, v := range vals {
			nb.cells[dst.Len+i] = in.newCell(et)
			in.store(nb.cells[dst.Len+i], v)
		}
		for i := newLen; i < newCap; i++ {
			nb.cells[i] = in.newCell(et)
		}
		return SliceV{nb, 0, newLen, newCap}, true
	}
	panic(abortf("UNSUPPORTED", "append to %T", args[0]))
}

func (in *Interp) copyOp(th *Thread, args []Value) (Value, bool) {
	ts := in.ts
	switch dst := args[0].(type) {
	case BytesV:
		var sArr, sOff, sLen *Term
		sMax := 0
		switch s := args[1].(type) {
		case BytesV:
			if s.Obj == nil {
				return BVv{in.bv64(0)}, true
			}
			sArr, sOff, sLen, sMax = s.Obj.arr, s.Off, s.Len, s.Obj.max
		case StrV:
			sArr, sOff, sLen, sMax = s.Arr, s.Off, s.Len, s.Max
		default:
			panic(abortf("UNSUPPORTED", "copy source %T", args[1]))
		}
		if dst.Obj == nil {
			return BVv{in.bv64(0)}, true
		}
		n := ts.Ite(ts.ULt(dst.Len, sLen), dst.Len, sLen)
		bound := minInt(dst.Obj.max, sMax)
		dst.Obj.arr = in.copyBytes(dst.Obj.arr, dst.Off, sArr, sOff, n, bound)
		return BVv{n}, true
	case SliceV:
		src := args[1].(SliceV)
		n := minInt(dst.Len, src.Len)
		vals := make([]Value, n)
		for i := 0; i < n; i++ {
			vals[i] = in.load(src.Back.cells[src.Off+i])
		}
		for i := 0; i < n; i++ {
			in.store(dst.Back.cells[dst.Off+i], vals[i])
		}
		return BVv{in.bv64(n)}, true
	}
	panic(abortf("UNSUPPORTED", "copy to %T", args[0]))
}
