package main

import (
	"fmt"
	"go/token"
	"go/types"
	"sort"

	"golang.org/x/tools/go/ssa"
)

type ChanObj struct {
	id     int
	cap    int
	buf    []Value
	closed bool
	elem   types.Type
}

type SyncObj struct {
	id      int
	locked  bool // mutex / rwmutex writer
	readers int
	count   int64 // waitgroup
	done    bool  // once
}

func (in *Interp) newChan(n int, elem types.Type) *ChanObj {
	in.objCount++
	return &ChanObj{id: in.objCount, cap: n, elem: elem}
}

func (in *Interp) syncOf(p Ptrv) *SyncObj {
	if p.Cell == nil {
		panic(abortf("INTERNAL", "sync object through nil pointer"))
	}
	if s, ok := in.syncs[p.Cell]; ok {
		return s
	}
	s := &SyncObj{id: p.Cell.id}
	in.syncs[p.Cell] = s
	return s
}

// touch records a write-mode access to a sync object by the running transition.
func (in *Interp) touch(id int) {
	if in.touched != nil {
		in.touched[id] = true
	}
}

// touchRead records a read-mode access (commutes with other read-mode accesses).
func (in *Interp) touchRead(id int) {
	if in.touched != nil {
		if _, ok := in.touched[id]; !ok {
			in.touched[id] = false
		}
	}
}

func (in *Interp) spawn(fnv Value, args []Value) *Thread {
	th := &Thread{id: len(in.threads)}
	in.threads = append(in.threads, th)
	// bootstrap: callValue pushes the frame (or runs an intrinsic and finishes)
	in.callValue(th, fnv, args, nil, nil, false)
	if len(th.frames) == 0 {
		th.done = true
	}
	return th
}

// ---------------------------------------------------------------------
// visible operations

type opInfo struct {
	visible bool
	objs    []int
}

func staticCalleeName(call *ssa.CallCommon) string {
	if f := call.StaticCallee(); f != nil {
		return f.String()
	}
	return ""
}

var blockingCalls = map[string]string{
	"(*sync.Mutex).Lock":      "lock",
	"(*sync.RWMutex).Lock":    "lock",
	"(*sync.RWMutex).RLock":   "rlock",
	"(*sync.WaitGroup).Wait":  "wait",
	"sync/atomic.AddUint32":   "atomic",
	"sync/atomic.AddInt32":    "atomic",
	"sync/atomic.AddUint64":   "atomic",
	"sync/atomic.AddInt64":    "atomic",
	"sync/atomic.LoadUint32":  "atomic",
	"sync/atomic.StoreUint32": "atomic",
}

func (in *Interp) nextInstr(th *Thread) ssa.Instruction {
	if th.done || len(th.frames) == 0 {
		return nil
	}
	fr := th.frames[len(th.frames)-1]
	if fr.pc >= len(fr.block.Instrs) {
		return nil
	}
	return fr.block.Instrs[fr.pc]
}

// visibleKind classifies the instruction at th's pc.
func (in *Interp) visibleKind(th *Thread) (kind string, call *ssa.CallCommon) {
	instr := in.nextInstr(th)
	switch x := instr.(type) {
	case *ssa.Send:
		return "send", nil
	case *ssa.Select:
		return "select", nil
	case *ssa.UnOp:
		if x.Op == token.ARROW {
			return "recv", nil
		}
	case *ssa.RunDefers:
		// a deferred blocking call (defer wg.Wait(), defer mu.Lock()) is the
		// visible operation of the RunDefers instruction
		fr := th.frames[len(th.frames)-1]
		if n := len(fr.defers); n > 0 {
			if fv, ok := fr.defers[n-1].fn.(FuncV); ok && fv.Fn != nil {
				if k, ok := blockingCalls[fv.Fn.String()]; ok && k != "atomic" {
					return k, nil
				}
			}
		}
	case *ssa.Call:
		name := staticCalleeName(&x.Call)
		if k, ok := blockingCalls[name]; ok {
			if k == "atomic" && in.cfg.AtomicInvisible {
				return "", nil
			}
			return k, &x.Call
		}
		if f := x.Call.StaticCallee(); f != nil && f.Name() == "vYield" {
			return "yield", &x.Call
		}
		if f := x.Call.StaticCallee(); f != nil && f.Name() == "vQuiesce" {
			return "quiesce", &x.Call
		}
	}
	return "", nil
}

func (in *Interp) curFrame(th *Thread) *Frame { return th.frames[len(th.frames)-1] }

// syncArg returns the receiver of th's pending lock/rlock/wait/atomic operation.
func (in *Interp) syncArg(th *Thread, call *ssa.CallCommon) Ptrv {
	fr := in.curFrame(th)
	if call != nil {
		return in.get(fr, call.Args[0]).(Ptrv)
	}
	return fr.defers[len(fr.defers)-1].args[0].(Ptrv)
}

// waitingRecv reports whether th is blocked waiting to receive on c
// (plain receive or blocking select with a receive case on c).
func (in *Interp) waitingRecv(th *Thread, c *ChanObj) (bool, int) {
	if th.done || th == in.cur {
		return false, 0
	}
	instr := in.nextInstr(th)
	fr := in.curFrame(th)
	switch x := instr.(type) {
	case *ssa.UnOp:
		if x.Op == token.ARROW {
			if ch := in.get(fr, x.X).(ChanV); ch.C == c {
				return true, -1
			}
		}
	case *ssa.Select:
		if !x.Blocking {
			return false, 0
		}
		for i, st := range x.States {
			if st.Dir == types.RecvOnly {
				if ch := in.get(fr, st.Chan).(ChanV); ch.C == c {
					return true, i
				}
			}
		}
	}
	return false, 0
}

// waitingSend reports whether th is blocked waiting to send on c.
func (in *Interp) waitingSend(th *Thread, c *ChanObj) (bool, int) {
	if th.done || th == in.cur {
		return false, 0
	}
	instr := in.nextInstr(th)
	fr := in.curFrame(th)
	switch x := instr.(type) {
	case *ssa.Send:
		if ch := in.get(fr, x.Chan).(ChanV); ch.C == c {
			return true, -1
		}
	case *ssa.Select:
		if !x.Blocking {
			return false, 0
		}
		for i, st := range x.States {
			if st.Dir == types.SendOnly {
				if ch := in.get(fr, st.Chan).(ChanV); ch.C == c {
					return true, i
				}
			}
		}
	}
	return false, 0
}

func (in *Interp) receiversOn(c *ChanObj) []*Thread {
	var r []*Thread
	for _, t := range in.threads {
		if ok, _ := in.waitingRecv(t, c); ok {
			r = append(r, t)
		}
	}
	return r
}

func (in *Interp) sendersOn(c *ChanObj) []*Thread {
	var r []*Thread
	for _, t := range in.threads {
		if ok, _ := in.waitingSend(t, c); ok {
			r = append(r, t)
		}
	}
	return r
}

func (in *Interp) sendReady(c *ChanObj) bool {
	if c == nil {
		return false
	}
	if c.closed {
		return true
	}
	if len(c.buf) < c.cap {
		return true
	}
	// rendezvous (or hand-over on an empty buffered channel): a receiver is blocked
	return len(c.buf) == 0 && len(in.receiversOn(c)) > 0
}

// recvReady: data buffered or closed. (Rendezvous is initiated by senders;
// a non-blocking receive may also take from a blocked sender.)
func (in *Interp) recvReady(c *ChanObj, nonblocking bool) bool {
	if c == nil {
		return false
	}
	if len(c.buf) > 0 || c.closed {
		return true
	}
	if nonblocking && c.cap == 0 {
		return len(in.sendersOn(c)) > 0
	}
	// buffered channel that is full with blocked senders is covered by len(buf)>0
	return false
}

// enabled reports whether th can execute its next (visible) instruction.
func (in *Interp) enabled(th *Thread) bool {
	if th.done {
		return false
	}
	kind, call := in.visibleKind(th)
	fr := in.curFrame(th)
	switch kind {
	case "":
		return true
	case "yield":
		return true
	case "quiesce":
		// enabled only when every other thread has finished or is blocked
		for _, t := range in.threads {
			if t != th && !t.done && in.enabled(t) {
				return false
			}
		}
		return true
	case "atomic":
		return true
	case "send":
		x := in.nextInstr(th).(*ssa.Send)
		save := in.cur
		in.cur = th
		r := in.sendReady(in.get(fr, x.Chan).(ChanV).C)
		in.cur = save
		return r
	case "recv":
		x := in.nextInstr(th).(*ssa.UnOp)
		return in.recvReady(in.get(fr, x.X).(ChanV).C, false)
	case "select":
		x := in.nextInstr(th).(*ssa.Select)
		if !x.Blocking {
			return true
		}
		save := in.cur
		in.cur = th
		defer func() { in.cur = save }()
		for _, st := range x.States {
			c := in.get(fr, st.Chan).(ChanV).C
			if st.Dir == types.SendOnly {
				if in.sendReady(c) {
					return true
				}
			} else if in.recvReady(c, false) {
				return true
			}
		}
		return false
	case "lock":
		s := in.syncOf(in.syncArg(th, call))
		return !s.locked && s.readers == 0
	case "rlock":
		s := in.syncOf(in.syncArg(th, call))
		return !s.locked
	case "wait":
		s := in.syncOf(in.syncArg(th, call))
		return s.count == 0
	}
	return true
}

func (in *Interp) hasUnbuffered(th *Thread) bool {
	fr := in.curFrame(th)
	chk := func(v ssa.Value) bool {
		c := in.get(fr, v).(ChanV).C
		return c != nil && c.cap == 0
	}
	switch x := in.nextInstr(th).(type) {
	case *ssa.Send:
		return chk(x.Chan)
	case *ssa.UnOp:
		return chk(x.X)
	case *ssa.Select:
		for _, st := range x.States {
			if chk(st.Chan) {
				return true
			}
		}
	}
	return false
}

// opObjs: the sync objects of th's pending visible operation.
func (in *Interp) opObjs(th *Thread) []int {
	kind, call := in.visibleKind(th)
	fr := in.curFrame(th)
	switch kind {
	case "send":
		if c := in.get(fr, in.nextInstr(th).(*ssa.Send).Chan).(ChanV).C; c != nil {
			return []int{c.id}
		}
	case "recv":
		if c := in.get(fr, in.nextInstr(th).(*ssa.UnOp).X).(ChanV).C; c != nil {
			return []int{c.id}
		}
	case "select":
		var r []int
		for _, st := range in.nextInstr(th).(*ssa.Select).States {
			if c := in.get(fr, st.Chan).(ChanV).C; c != nil {
				r = append(r, c.id)
			}
		}
		return r
	case "lock", "rlock", "wait", "atomic":
		p := in.syncArg(th, call)
		if p.Cell != nil {
			return []int{p.Cell.id}
		}
	case "quiesce":
		return []int{-1000000}
	case "yield":
		if len(call.Args) > 0 {
			if t := in.get(fr, call.Args[0]).(BVv).T; t.IsConst() {
				return []int{-int(t.val) - 1}
			}
		}
		return []int{-1}
	}
	return nil
}

// ---------------------------------------------------------------------
// channel operations (executed only when enabled)

func (in *Interp) completeRecvOf(t *Thread, caseIdx int, val Value, ok bool) {
	fr := in.curFrame(t)
	switch x := in.nextInstr(t).(type) {
	case *ssa.UnOp:
		if x.CommaOk {
			fr.env[x] = TupleV{val, Boolv{in.ts.Bool(ok)}}
		} else {
			fr.env[x] = val
		}
		fr.pc++
	case *ssa.Select:
		fr.env[x] = in.selectResult(x, caseIdx, val, ok)
		fr.pc++
	}
}

func (in *Interp) completeSendOf(t *Thread, caseIdx int) Value {
	fr := in.curFrame(t)
	switch x := in.nextInstr(t).(type) {
	case *ssa.Send:
		v := in.get(fr, x.X)
		fr.pc++
		return v
	case *ssa.Select:
		v := in.get(fr, x.States[caseIdx].Send)
		fr.env[x] = in.selectResult(x, caseIdx, nil, false)
		fr.pc++
		return v
	}
	panic(abortf("INTERNAL", "completeSendOf"))
}

func (in *Interp) selectResult(x *ssa.Select, idx int, val Value, ok bool) Value {
	tt := x.Type().(*types.Tuple)
	res := make(TupleV, tt.Len())
	res[0] = BVv{in.bv64(idx)}
	res[1] = Boolv{in.ts.Bool(ok)}
	k := 2
	for i, st := range x.States {
		if st.Dir == types.RecvOnly {
			if k < len(res) {
				if i == idx && val != nil {
					res[k] = val
				} else {
					res[k] = in.zero(tt.At(k).Type())
				}
			}
			k++
		}
	}
	return res
}

// symmetric reports whether two blocked threads are interchangeable: same code
// position in every frame and identical local state.
func (in *Interp) symmetric(a, b *Thread) bool {
	if len(a.frames) != len(b.frames) {
		return false
	}
	for i := range a.frames {
		fa, fb := a.frames[i], b.frames[i]
		if fa.fn != fb.fn || fa.block != fb.block || fa.pc != fb.pc || len(fa.env) != len(fb.env) || len(fa.defers) != len(fb.defers) {
			return false
		}
		for k, va := range fa.env {
			vb, ok := fb.env[k]
			if !ok || !in.sameValue(va, vb) {
				return false
			}
		}
	}
	return true
}

func (in *Interp) sameValue(a, b Value) bool {
	switch x := a.(type) {
	case BVv:
		y, ok := b.(BVv)
		return ok && x.T == y.T
	case Boolv:
		y, ok := b.(Boolv)
		return ok && x.T == y.T
	case Ptrv:
		y, ok := b.(Ptrv)
		return ok && x.Cell == y.Cell && x.Bobj == y.Bobj && x.Idx == y.Idx
	case ChanV:
		y, ok := b.(ChanV)
		return ok && x.C == y.C
	case MapV:
		y, ok := b.(MapV)
		return ok && x.M == y.M
	case FuncV:
		y, ok := b.(FuncV)
		if !ok || x.Fn != y.Fn || len(x.Bindings) != len(y.Bindings) {
			return false
		}
		for i := range x.Bindings {
			if !in.sameValue(x.Bindings[i], y.Bindings[i]) {
				return false
			}
		}
		return true
	case StrV:
		y, ok := b.(StrV)
		return ok && x.Arr == y.Arr && x.Off == y.Off && x.Len == y.Len
	case BytesV:
		y, ok := b.(BytesV)
		return ok && x.Obj == y.Obj && x.Off == y.Off && x.Len == y.Len
	case SliceV:
		y, ok := b.(SliceV)
		return ok && x == y
	case IfaceV:
		y, ok := b.(IfaceV)
		if !ok || (x.T == nil) != (y.T == nil) {
			return false
		}
		return x.T == nil || (types.Identical(x.T, y.T) && in.sameValue(x.V, y.V))
	case StructV:
		y, ok := b.(StructV)
		if !ok || len(x.F) != len(y.F) {
			return false
		}
		for i := range x.F {
			if !in.sameValue(x.F[i], y.F[i]) {
				return false
			}
		}
		return true
	case TupleV:
		y, ok := b.(TupleV)
		if !ok || len(x) != len(y) {
			return false
		}
		for i := range x {
			if !in.sameValue(x[i], y[i]) {
				return false
			}
		}
		return true
	case nil:
		return b == nil
	}
	return false
}

func (in *Interp) pickThread(ts []*Thread) *Thread {
	if len(ts) == 1 {
		return ts[0]
	}
	// symmetry reduction: keep one representative of interchangeable threads
	var reps []*Thread
	for _, t := range ts {
		dup := false
		for _, r := range reps {
			if in.symmetric(r, t) {
				dup = true
				break
			}
		}
		if !dup {
			reps = append(reps, t)
		}
	}
	ts = reps
	if len(ts) == 1 {
		return ts[0]
	}
	guards := make([]*Term, len(ts))
	for i := range guards {
		guards[i] = in.ts.True
	}
	in.schedChoice = true
	k := in.choose(guards)
	in.schedChoice = false
	return ts[k]
}

// doSend performs a send of v on c by the current thread (c is send-ready).
// Returns false if it panicked.
func (in *Interp) doSend(th *Thread, c *ChanObj, v Value) bool {
	in.touch(c.id)
	if c.closed {
		in.runtimePanic(th, "send on closed channel")
		return false
	}
	if rs := in.receiversOn(c); len(rs) > 0 && len(c.buf) == 0 {
		r := in.pickThread(rs)
		_, ci := in.waitingRecv(r, c)
		in.completeRecvOf(r, ci, v, true)
		return true
	}
	if len(c.buf) < c.cap {
		c.buf = append(c.buf, v)
		return true
	}
	panic(abortf("INTERNAL", "doSend on non-ready channel"))
}

// doRecv performs a receive on c by the current thread (c is recv-ready).
func (in *Interp) doRecv(th *Thread, c *ChanObj, nonblocking bool) (Value, bool) {
	in.touch(c.id)
	if len(c.buf) > 0 {
		v := c.buf[0]
		c.buf = append([]Value{}, c.buf[1:]...)
		// a blocked sender may now complete
		if ss := in.sendersOn(c); len(ss) > 0 {
			s := in.pickThread(ss)
			_, ci := in.waitingSend(s, c)
			c.buf = append(c.buf, in.completeSendOf(s, ci))
		}
		return v, true
	}
	if c.closed {
		return in.zero(c.elem), false
	}
	if c.cap == 0 {
		if ss := in.sendersOn(c); len(ss) > 0 {
			s := in.pickThread(ss)
			_, ci := in.waitingSend(s, c)
			return in.completeSendOf(s, ci), true
		}
	}
	panic(abortf("INTERNAL", "doRecv on non-ready channel"))
}

func (in *Interp) wakeOnClose(c *ChanObj) {}

func (in *Interp) execSend(th *Thread, fr *Frame, x *ssa.Send) bool {
	c := in.get(fr, x.Chan).(ChanV).C
	if c == nil || !in.sendReady(c) {
		panic(&blockedErr{th})
	}
	if !in.doSend(th, c, in.get(fr, x.X)) {
		return true
	}
	fr.pc++
	return true
}

type blockedErr struct{ th *Thread }

func (in *Interp) execRecv(th *Thread, fr *Frame, x *ssa.UnOp) bool {
	c := in.get(fr, x.X).(ChanV).C
	if c == nil || !in.recvReady(c, false) {
		panic(&blockedErr{th})
	}
	v, ok := in.doRecv(th, c, false)
	if x.CommaOk {
		fr.env[x] = TupleV{v, Boolv{in.ts.Bool(ok)}}
	} else {
		fr.env[x] = v
	}
	fr.pc++
	return true
}

func (in *Interp) execSelect(th *Thread, fr *Frame, x *ssa.Select) bool {
	var ready []int
	for i, st := range x.States {
		c := in.get(fr, st.Chan).(ChanV).C
		if st.Dir == types.SendOnly {
			if in.sendReady(c) {
				ready = append(ready, i)
			}
		} else if in.recvReady(c, !x.Blocking) {
			ready = append(ready, i)
		}
	}
	if len(ready) == 0 {
		if x.Blocking {
			panic(&blockedErr{th})
		}
		fr.env[x] = in.selectResult(x, -1, nil, false)
		fr.pc++
		return true
	}
	pick := ready[0]
	if len(ready) > 1 {
		guards := make([]*Term, len(ready))
		for i := range guards {
			guards[i] = in.ts.True
		}
		in.schedChoice = true
		pick = ready[in.choose(guards)]
		in.schedChoice = false
	}
	st := x.States[pick]
	c := in.get(fr, st.Chan).(ChanV).C
	if st.Dir == types.SendOnly {
		if !in.doSend(th, c, in.get(fr, st.Send)) {
			return true
		}
		fr.env[x] = in.selectResult(x, pick, nil, false)
	} else {
		v, ok := in.doRecv(th, c, !x.Blocking)
		fr.env[x] = in.selectResult(x, pick, v, ok)
	}
	fr.pc++
	return true
}

// ---------------------------------------------------------------------
// main loop and scheduler

func (in *Interp) liveThreads() []*Thread {
	var r []*Thread
	for _, t := range in.threads {
		if !t.done {
			r = append(r, t)
		}
	}
	return r
}

// runAll executes until all threads are done. Raises a violation on
// deadlock / leaked goroutines.
func (in *Interp) runAll() {
	for {
		th := in.cur
		if th == nil || th.done {
			th = in.schedule()
			if th == nil {
				return
			}
			in.cur = th
			th.granted = true
		}
		kind, _ := in.visibleKind(th)
		if kind != "" && !th.granted {
			nt := in.schedule()
			if nt == nil {
				return
			}
			in.cur = nt
			th = nt
			th.granted = true
		}
		in.stepGuarded(th)
		th.granted = false
		if len(th.frames) == 0 {
			th.done = true
		}
	}
}

func (in *Interp) stepGuarded(th *Thread) {
	defer func() {
		if r := recover(); r != nil {
			if up, ok := r.(*uncaughtPanic); ok {
				in.pendingTrace = up.ps.trace
				in.violation("panic", "uncaught panic: "+in.panicText(up.ps), up.ps.site, nil)
				in.pendingTrace = nil
				panic(abortf("STOP", "uncaught panic"))
			}
			panic(r)
		}
	}()
	in.step(th)
}

func (in *Interp) panicText(ps *PanicState) string {
	if iv, ok := ps.val.(IfaceV); ok && iv.T != nil {
		if sv, ok := iv.V.(StrV); ok {
			if s, ok := in.strConcrete(sv); ok {
				return s
			}
		}
		return "value of type " + iv.T.String()
	}
	return "?"
}

// schedule chooses the next thread to run. Returns nil when everything is
// finished (or records a deadlock violation).
func (in *Interp) schedule() *Thread {
	in.finishTransition(false)
	live := in.liveThreads()
	if len(live) == 0 {
		return nil
	}
	var en []*Thread
	for _, t := range live {
		if in.enabled(t) {
			en = append(en, t)
		}
	}
	if len(en) == 0 {
		// deadlock or leaked goroutines
		desc := ""
		for _, t := range live {
			fr := in.curFrame(t)
			desc += fmt.Sprintf("[g%d blocked at %s] ", t.id, in.siteOf(fr))
		}
		kind := "deadlock"
		if in.threads[0].done {
			kind = "leak"
		}
		in.cur = live[0]
		in.violation(kind, kind+": "+desc, in.siteOf(in.curFrame(live[0])), nil)
		panic(abortf("STOP", kind))
	}
	in.schedOps++
	if in.schedOps > in.cfg.MaxSchedOps {
		panic(abortf("BOUND-EXCEEDED", "more than %d scheduling points", in.cfg.MaxSchedOps))
	}
	if len(live) == 1 {
		return en[0]
	}
	return in.pickSchedule(en)
}

type SleepEnt struct {
	Tid     int
	Touched []int // objects accessed in write mode
	Reads   []int // objects accessed in read mode only
	All     bool
}

func (in *Interp) pickSchedule(en []*Thread) *Thread {
	sort.Slice(en, func(i, j int) bool { return en[i].id < en[j].id })
	if in.cfg.Preempt >= 0 {
		return in.pickBounded(en)
	}
	if in.replaying() {
		d := in.prefix[in.pos]
		if d.Kind != 's' {
			panic(abortf("INTERNAL", "replay divergence: expected %c got schedule at decision %d", d.Kind, in.pos))
		}
		in.pos++
		in.taken = append(in.taken, d)
		var th *Thread
		for _, t := range en {
			if t.id == d.Pick {
				th = t
			}
		}
		if th == nil {
			panic(abortf("INTERNAL", "replay divergence: scheduled thread %d not enabled", d.Pick))
		}
		in.beginTransition(th, d.SleepSet, d.Rest, d.Own)
		in.schedLog = append(in.schedLog, th.id)
		return th
	}
	// fresh decision
	var cands []*Thread
	for _, t := range en {
		if in.asleep(t) {
			continue
		}
		// symmetry: of interchangeable threads only the lowest id is scheduled
		dup := false
		for _, r := range cands {
			if in.symmetric(r, t) {
				dup = true
				break
			}
		}
		if !dup {
			cands = append(cands, t)
		}
	}
	if len(cands) == 0 {
		panic(abortf("SLEEP", "sleep-set blocked"))
	}
	if in.cfg.NoPOR {
		// naive: all alternatives pushed immediately
		for _, t := range cands[1:] {
			in.newWork = append(in.newWork, WorkItem{Prefix: clonePrefix(in.taken, Decision{Kind: 's', Pick: t.id}), Model: in.model})
		}
		in.taken = append(in.taken, Decision{Kind: 's', Pick: cands[0].id})
		in.schedLog = append(in.schedLog, cands[0].id)
		return cands[0]
	}
	rest := make([]int, 0, len(cands)-1)
	for _, t := range cands[1:] {
		rest = append(rest, t.id)
	}
	d := Decision{Kind: 's', Pick: cands[0].id, SleepSet: in.sleepList(), Rest: rest, Own: true}
	in.taken = append(in.taken, d)
	in.beginTransition(cands[0], d.SleepSet, rest, true)
	in.schedLog = append(in.schedLog, cands[0].id)
	return cands[0]
}

func (in *Interp) sleepList() []SleepEnt {
	r := make([]SleepEnt, 0, len(in.sleepSet))
	for _, e := range in.sleepSet {
		r = append(r, e)
	}
	return r
}

func (in *Interp) asleep(t *Thread) bool {
	for _, e := range in.sleepSet {
		if e.Tid == t.id {
			return true
		}
	}
	return false
}

// beginTransition starts recording the objects touched by th's transition.
func (in *Interp) beginTransition(th *Thread, sleep []SleepEnt, rest []int, own bool) {
	in.trans = &transState{tid: th.id, sleep: sleep, rest: rest, own: own, decIdx: len(in.taken) - 1, startDecisions: len(in.taken)}
	in.touched = map[int]bool{}
	if k, _ := in.visibleKind(th); k == "rlock" {
		for _, o := range in.opObjs(th) {
			in.touchRead(o)
		}
	} else {
		for _, o := range in.opObjs(th) {
			in.touched[o] = true
		}
	}
	if !th.started {
		th.started = true
	}
}

type transState struct {
	tid            int
	sleep          []SleepEnt
	rest           []int
	own            bool
	decIdx         int
	startDecisions int
}

// finishTransition is called at the next scheduling point (or at the end of
// the path): computes the new sleep set and queues the next sibling.
func (in *Interp) finishTransition(aborted bool) {
	tr := in.trans
	if tr == nil {
		return
	}
	in.trans = nil
	// arriving at a channel operation registers the thread as a waiter, which
	// other threads' sends/receives observe (hand-over vs buffering): the
	// objects of the operation the thread is now positioned at belong to the
	// transition as well.
	if tr.tid < len(in.threads) && in.touched != nil {
		if th := in.threads[tr.tid]; !th.done && len(th.frames) > 0 {
			func() {
				defer func() { recover() }()
				switch k, _ := in.visibleKind(th); k {
				case "send", "recv", "select":
					// observable only if the thread now waits (blocked), or an
					// unbuffered channel is involved (rendezvous partners look
					// for positioned threads)
					if !in.enabled(th) || in.hasUnbuffered(th) {
						for _, o := range in.opObjs(th) {
							in.touched[o] = true
						}
					}
				}
			}()
		}
	}
	touched := make([]int, 0, len(in.touched))
	var reads []int
	for o, w := range in.touched {
		if w {
			touched = append(touched, o)
		} else {
			reads = append(reads, o)
		}
	}
	sort.Ints(touched)
	sort.Ints(reads)
	// data-dependent transition (forked on solver decisions): universal
	all := aborted
	for _, d := range in.taken[tr.startDecisions:] {
		if d.Kind != 's' && !d.Sched {
			all = true
		}
	}
	ent := SleepEnt{Tid: tr.tid, Touched: touched, Reads: reads, All: all}
	// queue next sibling
	if tr.own && len(tr.rest) > 0 {
		pre := make([]Decision, tr.decIdx)
		copy(pre, in.taken[:tr.decIdx])
		for i := range pre {
			pre[i].Own = false
			pre[i].Rest = nil
		}
		sl := append(append([]SleepEnt{}, tr.sleep...), ent)
		nd := Decision{Kind: 's', Pick: tr.rest[0], SleepSet: sl, Rest: append([]int{}, tr.rest[1:]...), Own: true}
		in.newWork = append(in.newWork, WorkItem{Prefix: append(pre, nd), Model: in.model})
	}
	// new sleep set: entries independent of the executed transition
	var ns []SleepEnt
	for _, e := range tr.sleep {
		if e.Tid == tr.tid {
			continue
		}
		if e.All || all || intersects(e.Touched, touched) || intersects(e.Touched, reads) || intersects(e.Reads, touched) {
			continue
		}
		// the sleeping thread's pending op must still be the same kind of op;
		// by independence it is.
		ns = append(ns, e)
	}
	in.sleepSet = ns
	in.touched = nil
}

func intersects(a, b []int) bool {
	i, j := 0, 0
	for i < len(a) && j < len(b) {
		switch {
		case a[i] == b[j]:
			return true
		case a[i] < b[j]:
			i++
		default:
			j++
		}
	}
	return false
}

// pickBounded: context-bounded scheduling. The thread that ran last keeps
// running while it is enabled unless a preemption is spent; at most
// cfg.Preempt preemptions per execution. No sleep sets (complete within the
// bound).
func (in *Interp) pickBounded(en []*Thread) *Thread {
	prev := in.cur
	prevEnabled := false
	if prev != nil && !prev.done {
		for _, t := range en {
			if t == prev {
				prevEnabled = true
			}
		}
	}
	if in.replaying() {
		d := in.prefix[in.pos]
		if d.Kind != 's' {
			panic(abortf("INTERNAL", "replay divergence: expected %c got schedule at decision %d", d.Kind, in.pos))
		}
		in.pos++
		in.taken = append(in.taken, d)
		for _, t := range en {
			if t.id == d.Pick {
				if prevEnabled && t != prev {
					in.preempts++
				}
				in.schedLog = append(in.schedLog, t.id)
				return t
			}
		}
		panic(abortf("INTERNAL", "replay divergence: scheduled thread %d not enabled", d.Pick))
	}
	var cands []*Thread
	if prevEnabled {
		cands = append(cands, prev)
		if in.preempts < in.cfg.Preempt {
			for _, t := range en {
				if t != prev {
					cands = append(cands, t)
				}
			}
		}
	} else {
		cands = en
	}
	for _, t := range cands[1:] {
		in.newWork = append(in.newWork, WorkItem{Prefix: clonePrefix(in.taken, Decision{Kind: 's', Pick: t.id}), Model: in.model})
	}
	in.taken = append(in.taken, Decision{Kind: 's', Pick: cands[0].id})
	in.schedLog = append(in.schedLog, cands[0].id)
	return cands[0]
}
