package main

// If-conversion of pure triangles/diamonds: `a && b`, `if c { x |= k }`, …
// become ite/and terms instead of path forks.

import (
	"go/token"
	"reflect"

	"golang.org/x/tools/go/ssa"
)

const maxSpecInstrs = 32

// speculate evaluates the instructions of a pure side block into overlay.
func (in *Interp) speculate(fr *Frame, b *ssa.BasicBlock, overlay map[ssa.Value]Value) (ok bool) {
	if len(b.Instrs) > maxSpecInstrs {
		return false
	}
	defer func() {
		if r := recover(); r != nil {
			ok = false
		}
	}()
	get := func(v ssa.Value) Value {
		if x, ok := overlay[v]; ok {
			return x
		}
		return in.get(fr, v)
	}
	for i, instr := range b.Instrs {
		if i == len(b.Instrs)-1 {
			_, isJump := instr.(*ssa.Jump)
			return isJump
		}
		switch x := instr.(type) {
		case *ssa.DebugRef:
		case *ssa.BinOp:
			if x.Op == token.QUO || x.Op == token.REM {
				return false
			}
			a, bb := get(x.X), get(x.Y)
			switch a.(type) {
			case BVv, Boolv:
			default:
				// string/interface comparisons are fine, concatenation is not
				if x.Op != token.EQL && x.Op != token.NEQ {
					return false
				}
			}
			r, ok := in.binop(nil, fr, x.Op, a, bb, x.X.Type(), x.Type())
			if !ok {
				return false
			}
			overlay[x] = r
		case *ssa.UnOp:
			v := get(x.X)
			switch x.Op {
			case token.NOT:
				overlay[x] = Boolv{in.ts.Not(v.(Boolv).T)}
			case token.SUB:
				bv, ok := v.(BVv)
				if !ok {
					return false
				}
				overlay[x] = BVv{in.ts.Neg(bv.T)}
			case token.XOR:
				overlay[x] = BVv{in.ts.BNot(v.(BVv).T)}
			case token.MUL:
				p := v.(Ptrv)
				if p.IsNil() {
					return false
				}
				if p.Bobj != nil {
					// byte load: index must be in range by construction of the pointer
					overlay[x] = BVv{in.ts.Select(p.Bobj.arr, p.Idx)}
				} else {
					overlay[x] = in.load(p.Cell)
				}
			default:
				return false
			}
		case *ssa.Convert:
			v := get(x.X)
			if _, ok := v.(BVv); !ok {
				return false
			}
			if _, _, ok := typeIntWidth(x.Type()); !ok {
				return false
			}
			overlay[x] = in.convert(v, x.X.Type(), x.Type())
		case *ssa.ChangeType:
			overlay[x] = get(x.X)
		case *ssa.ChangeInterface:
			overlay[x] = get(x.X)
		case *ssa.MakeInterface:
			overlay[x] = IfaceV{T: x.X.Type(), V: get(x.X)}
		case *ssa.Field:
			overlay[x] = get(x.X).(StructV).F[x.Field]
		case *ssa.FieldAddr:
			p := get(x.X).(Ptrv)
			if p.IsNil() || p.Cell == nil || p.Cell.fields == nil {
				return false
			}
			overlay[x] = Ptrv{Cell: p.Cell.fields[x.Field]}
		case *ssa.Extract:
			overlay[x] = get(x.Tuple).(TupleV)[x.Index]
		case *ssa.Call:
			bi, ok := x.Call.Value.(*ssa.Builtin)
			if !ok || (bi.Name() != "len" && bi.Name() != "cap") {
				return false
			}
			r, ok2 := in.builtin(nil, bi, []Value{get(x.Call.Args[0])})
			if !ok2 {
				return false
			}
			overlay[x] = r
		default:
			return false
		}
	}
	return false
}

func (in *Interp) mergeValues(c *Term, a, b Value) (Value, bool) {
	switch x := a.(type) {
	case BVv:
		y, ok := b.(BVv)
		if !ok || x.T.sort != y.T.sort {
			return nil, false
		}
		return BVv{in.ts.Ite(c, x.T, y.T)}, true
	case Boolv:
		y, ok := b.(Boolv)
		if !ok {
			return nil, false
		}
		return Boolv{in.ts.Ite(c, x.T, y.T)}, true
	case StructV:
		y, ok := b.(StructV)
		if !ok || len(x.F) != len(y.F) {
			return nil, false
		}
		f := make([]Value, len(x.F))
		for i := range f {
			m, ok := in.mergeValues(c, x.F[i], y.F[i])
			if !ok {
				return nil, false
			}
			f[i] = m
		}
		return StructV{f}, true
	case Ptrv:
		y, ok := b.(Ptrv)
		if ok && x.Cell == y.Cell && x.Bobj == y.Bobj && x.Idx == y.Idx {
			return a, true
		}
		return nil, false
	case StrV:
		y, ok := b.(StrV)
		if ok && x.Arr == y.Arr && x.Off == y.Off && x.Len == y.Len {
			return a, true
		}
		return nil, false
	case IfaceV:
		y, ok := b.(IfaceV)
		if !ok {
			return nil, false
		}
		if x.T == nil && y.T == nil {
			return a, true
		}
		return nil, false
	}
	if reflect.TypeOf(a) == reflect.TypeOf(b) && reflect.TypeOf(a).Comparable() && a == b {
		return a, true
	}
	return nil, false
}

// tryIfConvert handles `if c` at the end of fr.block when the controlled
// code is a pure triangle or diamond. Returns true if control was
// transferred to the join block.
func (in *Interp) tryIfConvert(fr *Frame, c *Term) bool {
	if in.cfg.NoIfConv {
		return false
	}
	B := fr.block
	T, F := B.Succs[0], B.Succs[1]
	if T == F {
		return false
	}
	single := func(b *ssa.BasicBlock) bool {
		return len(b.Preds) == 1 && len(b.Succs) == 1
	}
	var join *ssa.BasicBlock
	var sideT, sideF *ssa.BasicBlock // nil => edge comes directly from B
	switch {
	case single(T) && T.Succs[0] == F:
		join, sideT = F, T
	case single(F) && F.Succs[0] == T:
		join, sideF = T, F
	case single(T) && single(F) && T.Succs[0] == F.Succs[0] && T.Succs[0] != B:
		join, sideT, sideF = T.Succs[0], T, F
	default:
		return false
	}
	if join == B {
		return false
	}
	overlay := map[ssa.Value]Value{}
	if sideT != nil && !in.speculate(fr, sideT, overlay) {
		return false
	}
	if sideF != nil && !in.speculate(fr, sideF, overlay) {
		return false
	}
	predT, predF := B, B
	if sideT != nil {
		predT = sideT
	}
	if sideF != nil {
		predF = sideF
	}
	idxT, idxF := -1, -1
	for i, p := range join.Preds {
		if p == predT && idxT < 0 {
			idxT = i
		} else if p == predF && idxF < 0 {
			idxF = i
		}
	}
	if predT == predF {
		// both edges come from B (cannot happen: T != F)
		return false
	}
	if idxT < 0 || idxF < 0 {
		return false
	}
	get := func(v ssa.Value) Value {
		if x, ok := overlay[v]; ok {
			return x
		}
		return in.get(fr, v)
	}
	var phis []*ssa.Phi
	var vals []Value
	k := 0
	for k < len(join.Instrs) {
		p, ok := join.Instrs[k].(*ssa.Phi)
		if !ok {
			break
		}
		m, ok := in.mergeValues(c, get(p.Edges[idxT]), get(p.Edges[idxF]))
		if !ok {
			return false
		}
		phis = append(phis, p)
		vals = append(vals, m)
		k++
	}
	for v, x := range overlay {
		fr.env[v] = x
	}
	for i, p := range phis {
		fr.env[p] = vals[i]
	}
	fr.prev = predT
	fr.block = join
	fr.pc = k
	in.visit(fr)
	return true
}
