#!/bin/sh
# runs every registered check in the given tier; prints one line per property
tier=${1:-quick}
for p in C01 C02 C03 C04 C05 C06 C07 C08 C09 C10 C11 C12 C13 C14 C15 C16 C17 C18 C19 C20; do
  /usr/bin/time -f "%es" timeout 7200 ./check $p $tier 2>&1 | grep -v "^KNOWN" | tail -2 | cut -c1-260
done
