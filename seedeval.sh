#!/bin/bash
# seedeval.sh <seed-id> <property> <dir-with-_seed> [tier]: verify a seeded change independently, then run the property's check against it.
set -u
id=$1; prop=$2; src=$3; tier=${4:-quick}
dst=/verif/seeded/$id
mkdir -p $dst
[ -d "$src/_seed" ] && cp $src/_seed/patch.diff $src/_seed/demo_test.go $src/_seed/meta.json $dst/ 2>/dev/null
pkgdir=$(python3 -c "import json;print(json.load(open('$dst/meta.json')).get('package_dir','.'))" 2>/dev/null || echo .)
wt=/tmp/sv_$id
git -C /repo worktree remove --force $wt 2>/dev/null
git -C /repo worktree add -q --detach $wt HEAD
export GOFLAGS=-mod=mod GOPROXY=off
export VERIF_EVIDENCE_DIR=/tmp/sv_evidence_$id; mkdir -p $VERIF_EVIDENCE_DIR
res="$dst/verify.txt"; : > $res
( cd $wt && git apply $dst/patch.diff ) || { echo "patch does not apply" | tee -a $res; git -C /repo worktree remove --force $wt; exit 1; }
( cd $wt && go build ./... && go test -vet=off -count=1 ./... 2>&1 | grep -v "no test files" | tail -4 ) > $res.suite 2>&1
if grep -q "^FAIL\|FAIL\s" $res.suite; then echo "existing suite FAILS with the change" | tee -a $res; else echo "existing suite passes with the change" | tee -a $res; fi
cp $dst/demo_test.go $wt/$pkgdir/zz_demo_test.go
( cd $wt/$pkgdir && timeout 300 go test -vet=off -count=1 -run '^TestSeedDemo$' . 2>&1 | tail -3 ) > $res.demo_with 2>&1
if grep -q "^ok" $res.demo_with; then echo "demo PASSES with the change (bad seed)" | tee -a $res; else echo "demo fails with the change" | tee -a $res; fi
( cd $wt && git apply -R $dst/patch.diff )
( cd $wt/$pkgdir && timeout 300 go test -vet=off -count=1 -run '^TestSeedDemo$' . 2>&1 | tail -3 ) > $res.demo_without 2>&1
if grep -q "^ok" $res.demo_without; then echo "demo passes without the change" | tee -a $res; else echo "demo FAILS without the change (bad seed)" | tee -a $res; fi
git -C /repo worktree remove --force $wt
rm -f $res.suite $res.demo_with $res.demo_without
# run the check against the change
if [ -n "${SEEDEVAL_WT:-}" ]; then
  # another check is using /repo: evaluate against a scratch worktree instead
  wt2=/tmp/svr_$id
  git -C /repo worktree remove --force $wt2 2>/dev/null
  git -C /repo worktree add -q --detach $wt2 HEAD
  ( cd $wt2 && git apply $dst/patch.diff ) || { echo "cannot apply"; exit 1; }
  ( cd /verif && VERIF_REPO=$wt2 timeout 3000 ./check $prop $tier > $dst/check_$tier.txt 2>&1; echo "check exit $?" >> $dst/check_$tier.txt )
  git -C /repo worktree remove --force $wt2
else
git -C /repo apply $dst/patch.diff || { echo "cannot apply to /repo"; exit 1; }
( cd /verif && timeout 3000 ./check $prop $tier > $dst/check_$tier.txt 2>&1; echo "check exit $?" >> $dst/check_$tier.txt )
git -C /repo checkout -- .
fi
tail -1 $dst/check_$tier.txt | tee -a $res
grep -c "^VIOLATION" $dst/check_$tier.txt | sed 's/^/VIOLATION lines: /' | tee -a $res
grep "^VIOLATION\|^ENGINE-MISMATCH\|^INCONCLUSIVE" $dst/check_$tier.txt | cut -c1-260 | sort -u | head -5
rm -rf $VERIF_EVIDENCE_DIR
