//go:build verif

package sftp

import (
	"context"
	"strconv"
)

// vTable fills the os-backed server's table with up to 3 model files whose
// keys are decimal strings <= handleCount (what nextHandle produces).
func vCounts() int { return [5]int{0, 1, 9, 10, 12}[vChoice(5)] }

// candidate keys: the first, the last and the one before the last handle issued
func vKeys(count int) []string {
	var ks []string
	for _, k := range []int{1, count - 1, count} {
		if k >= 1 && k <= count {
			dup := false
			for _, x := range ks {
				if x == strconv.Itoa(k) {
					dup = true
				}
			}
			if !dup {
				ks = append(ks, strconv.Itoa(k))
			}
		}
	}
	return ks
}

func vTable(svr *Server) []*vMFile {
	svr.handleCount = vCounts()
	var fs []*vMFile
	for _, key := range vKeys(svr.handleCount) {
		if vNondetBool() {
			continue
		}
		f := &vMFile{name: "/f" + key, data: []byte{1}}
		svr.openFiles[key] = f
		fs = append(fs, f)
	}
	return fs
}

func vh_C11_server_nextHandle() {
	svr := vNewServer(false, "")
	fs := vTable(svr)
	before := len(svr.openFiles)
	issued := svr.handleCount // every handle issued so far, open or closed, is a number <= this
	nf := &vMFile{name: "/new"}
	h := svr.nextHandle(nf)
	vAssert(svr.handleCount == issued+1, "the new handle is larger than every handle issued before, also the closed ones (added after seeded change C11-c)")
	vAssert(len(svr.openFiles) == before+1, "new handle does not collide with an open one")
	got, ok := svr.getHandle(h)
	vAssert(ok && got == file(nf), "new handle names the new file")
	vAssert(h == strconv.Itoa(svr.handleCount), "handle is the incremented counter")
	for _, f := range fs {
		vAssert(f.closed == 0, "other files untouched")
	}
	vEmit("h", h)
}

func vh_C11_server_closeHandle() {
	vCloseMayFail, vTape = true, nil
	vEnvReset()
	svr := vNewServer(false, "")
	fs := vTable(svr)
	before := len(svr.openFiles)
	h := vNondetStringC(2)
	target, was := svr.openFiles[h]
	err := svr.closeHandle(h)
	if was {
		vAssert(len(svr.openFiles) == before-1, "named entry removed (whatever Close reports)")
		_, still := svr.getHandle(h)
		vAssert(!still, "handle is dead after close")
		vAssert(target.(*vMFile).closed == 1, "closed exactly once")
		vAssert(svr.closeHandle(h) == EBADF, "second close fails")
		vAssert(target.(*vMFile).closed == 1, "second close does not touch the file")
	} else {
		vAssert(err == EBADF && len(svr.openFiles) == before, "bogus handle: EBADF, table unchanged")
	}
	n := 0
	for _, f := range fs {
		n += f.closed
	}
	if was {
		vAssert(n == 1, "no other file closed")
	} else {
		vAssert(n == 0, "no file closed")
	}
	vEmit("was", was)
}

// a handle-carrying request naming a handle that is not in the table fails
// without touching any file
func vh_C11_server_bogus_handle() {
	vErrKinds = 0
	vEnvReset()
	svr := vNewServer(false, "")
	fs := vTable(svr)
	h := vNondetStringC(2)
	_, open := svr.openFiles[h]
	vAssume(!open)
	id := vNondetU32()
	var pkt requestPacket
	switch vChoice(6) {
	case 0:
		pkt = &sshFxpReadPacket{ID: id, Handle: h, Len: 3}
	case 1:
		pkt = &sshFxpWritePacket{ID: id, Handle: h, Length: 1, Data: []byte{1}}
	case 2:
		pkt = &sshFxpFstatPacket{ID: id, Handle: h}
	case 3:
		pkt = &sshFxpFsetstatPacket{ID: id, Handle: h, Flags: vNondetU32(), Attrs: vNondetArray(24)}
	case 4:
		pkt = &sshFxpReaddirPacket{ID: id, Handle: h}
	case 5:
		pkt = &sshFxpClosePacket{ID: id, Handle: h}
	}
	r, _, err := vWorkerStep(svr, pkt)
	vAssert(err == nil, "worker continues")
	code, isStatus := vStatusCode(vRespBytes(r))
	vAssert(isStatus && code != sshFxOk, "answered with a failure status")
	vAssert(len(vEnvLog) == 0, "no file or os call was made")
	for _, f := range fs {
		vAssert(f.closed == 0 && f.reads == 0 && f.writes == 0, "open files untouched")
	}
}

// failed OPEN / OPENDIR leave the table as it was
func vh_C11_server_failed_open() {
	vErrKinds = 3
	vTape = nil
	vEnvReset()
	vOpened = nil
	svr := vNewServer(false, "")
	vTable(svr)
	before := len(svr.openFiles)
	var pkt requestPacket
	if vNondetBool() {
		pkt = &sshFxpOpenPacket{ID: 1, Path: "/x", Pflags: vNondetU32(), Flags: 0, Attrs: []byte{}}
	} else {
		pkt = &sshFxpOpendirPacket{ID: 1, Path: "/x"}
	}
	r, _, err := vWorkerStep(svr, pkt)
	vAssert(err == nil, "worker continues")
	b := vRespBytes(r)
	if b[4] == sshFxpHandle {
		vAssert(len(svr.openFiles) == before+1 && len(vOpened) == 1, "successful open registers exactly the opened file")
	} else {
		vAssert(len(svr.openFiles) == before, "failed open leaves the table unchanged")
		vAssert(len(vOpened) == 0, "failed open retains no file")
	}
}

// ---- request server ----

func vRSTable(rs *RequestServer) []*vHObj {
	rs.handleCount = vCounts()
	var os []*vHObj
	kind := vChoice(4)
	for _, key := range vKeys(rs.handleCount) {
		if vNondetBool() {
			continue
		}
		r := &Request{Filepath: "/o" + key, handle: key}
		r.ctx, r.cancelCtx = context.WithCancel(context.Background())
		o := vNewHObj("pre", r)
		switch kind {
		case 0:
			r.Method, r.readerAt = "Get", o
		case 1:
			r.Method, r.writerAt = "Put", o
		case 2:
			r.Method, r.writerAtReaderAt = "Open", o
		default:
			r.Method, r.listerAt = "List", o
		}
		o.kind = r.Method
		kind = (kind + 1) % 4
		rs.openRequests[key] = r
		os = append(os, o)
	}
	return os
}

// two leftover handles of consecutive kinds (reader+writer, writer+rw, rw+lister, lister+reader)
func vRSTable2(rs *RequestServer) []*vHObj {
	rs.handleCount = 2
	var os []*vHObj
	kind := vChoice(4)
	for _, key := range []string{"1", "2"} {
		r := &Request{Filepath: "/o" + key, handle: key}
		r.ctx, r.cancelCtx = context.WithCancel(context.Background())
		o := vNewHObj("pre", r)
		switch kind {
		case 0:
			r.Method, r.readerAt = "Get", o
		case 1:
			r.Method, r.writerAt = "Put", o
		case 2:
			r.Method, r.writerAtReaderAt = "Open", o
		default:
			r.Method, r.listerAt = "List", o
		}
		o.kind = r.Method
		kind = (kind + 1) % 4
		rs.openRequests[key] = r
		os = append(os, o)
	}
	return os
}

func vh_C11_rs_next_close() {
	vCloseMayFail, vTape = true, nil
	vEnvReset()
	vHReset()
	rs := vNewRequestServer(Handlers{vH{}, vH{}, vH{}, vH{}}, "/")
	objs := vRSTable(rs)
	before := len(rs.openRequests)
	nr := &Request{Filepath: "/n"}
	issued := rs.handleCount
	h := rs.nextRequest(nr)
	vAssert(rs.handleCount == issued+1, "the new handle is larger than every handle issued before, also the closed ones")
	vAssert(len(rs.openRequests) == before+1 && h == strconv.Itoa(rs.handleCount) && nr.handle == h, "new handle is fresh and is the incremented counter")
	x := vNondetStringC(2)
	target, was := rs.openRequests[x]
	err := rs.closeRequest(x)
	closedTotal := 0
	for _, o := range objs {
		closedTotal += o.closed
	}
	if was && target != nr {
		_ = err // Close's own error is passed on; the handle dies all the same
		_, still := rs.getRequest(x)
		vAssert(!still, "handle is dead after close")
		vAssert(closedTotal == 1, "exactly the named request's object closed, once")
		vAssert(target.ctx.Err() != nil, "the handle's context is cancelled")
		vAssert(rs.closeRequest(x) == EBADF, "second close fails")
	} else if !was {
		vAssert(err == EBADF && closedTotal == 0 && len(rs.openRequests) == before+1, "bogus handle: EBADF, nothing touched")
	}
}

func vh_C11_rs_bogus_handle() {
	vHErrKinds = 0
	vHReset()
	rs := vNewRequestServer(Handlers{vH{}, vHOpenFile{}, vHCmdAll{}, vHListAll{}}, "/")
	objs := vRSTable(rs)
	h := vNondetStringC(2)
	_, open := rs.openRequests[h]
	vAssume(!open)
	id := vNondetU32()
	var pkt requestPacket
	switch vChoice(6) {
	case 0:
		pkt = &sshFxpReadPacket{ID: id, Handle: h, Len: 3}
	case 1:
		pkt = &sshFxpWritePacket{ID: id, Handle: h, Length: 1, Data: []byte{1}}
	case 2:
		pkt = &sshFxpFstatPacket{ID: id, Handle: h}
	case 3:
		pkt = &sshFxpFsetstatPacket{ID: id, Handle: h, Flags: vNondetU32(), Attrs: vNondetArray(24)}
	case 4:
		pkt = &sshFxpReaddirPacket{ID: id, Handle: h}
	case 5:
		pkt = &sshFxpClosePacket{ID: id, Handle: h}
	}
	r, err := vRSStep(rs, pkt)
	vAssert(err == nil, "worker continues")
	code, isStatus := vStatusCode(vRespBytes(r))
	vAssert(isStatus && code != sshFxOk, "answered with a failure status")
	vAssert(len(vHLog) == 0, "no handler or handler object was invoked")
	for _, o := range objs {
		vAssert(o.closed == 0 && o.reads == 0 && o.writes == 0 && o.lists == 0, "open objects untouched")
	}
}

func vh_C11_rs_failed_open() {
	vHErrKinds = 3
	vTape = nil
	vHReset()
	rs := vNewRequestServer(Handlers{vH{}, vHOpenFile{}, vHCmdAll{}, vHListAll{}}, "/")
	vRSTable(rs)
	nobj := len(vHObjs)
	before := len(rs.openRequests)
	var pkt requestPacket
	if vNondetBool() {
		pkt = &sshFxpOpenPacket{ID: 1, Path: "/x", Pflags: vNondetU32(), Flags: 0, Attrs: []byte{}}
	} else {
		pkt = &sshFxpOpendirPacket{ID: 1, Path: "/x"}
	}
	r, err := vRSStep(rs, pkt)
	vAssert(err == nil, "worker continues")
	b := vRespBytes(r)
	if b[4] == sshFxpHandle {
		vAssert(len(rs.openRequests) == before+1 && len(vHObjs) == nobj+1, "successful open registers exactly one object")
		vAssert(vHObjs[nobj].ctx.Err() == nil, "context of an open handle is live")
	} else {
		vAssert(len(rs.openRequests) == before, "failed open leaves the table unchanged")
		vAssert(len(vHObjs) == nobj, "failed open retains no reader/writer/lister")
	}
}

// Request.close: every attached object closed once, context cancelled
func vh_C11_request_close() {
	vHReset()
	r := &Request{Filepath: "/o"}
	r.ctx, r.cancelCtx = context.WithCancel(context.Background())
	var objs []*vHObj
	if vNondetBool() {
		o := vNewHObj("lister", r)
		r.listerAt = o
		objs = append(objs, o)
	}
	if vNondetBool() {
		o := vNewHObj("writer", r)
		r.writerAt = o
		objs = append(objs, o)
	}
	if vNondetBool() {
		o := vNewHObj("rw", r)
		r.writerAtReaderAt = o
		objs = append(objs, o)
	}
	if vNondetBool() {
		o := vNewHObj("reader", r)
		r.readerAt = o
		objs = append(objs, o)
	}
	err := r.close()
	vAssert(err == nil, "close reports no error")
	for _, o := range objs {
		vAssert(o.closed == 1, "each attached object closed exactly once")
	}
	vAssert(r.ctx.Err() != nil, "context cancelled")
}

// the end-of-Serve sweeps: the real Serve of both servers is run (all its
// goroutines interpreted) on a stream that ends at once, or after a garbage
// byte, with handles left open: every leftover object is closed exactly once,
// and readers/writers get the transfer error exactly once.
//
//verif:constoverride (*github.com/pkg/sftp.packetManager).workerChan 8 2
func vh_C11_rs_serve_sweep() {
	vHReset()
	rs := vNewRequestServer(Handlers{vH{}, vH{}, vH{}, vH{}}, "/")
	rs.pktMgr = newPktMgr(rs.serverConn)
	objs := vRSTable2(rs)
	if vNondetBool() {
		rs.serverConn.conn.Reader = &vReader{data: []byte{0, 0}} // broken in the middle of a length field
	}
	err := rs.Serve()
	vAssert(err != nil, "Serve reports the end of the stream")
	vAssert(len(rs.openRequests) == 0, "table empty")
	for _, o := range objs {
		vAssert(o.closed == 1, "leftover object closed exactly once")
		if o.kind == "List" {
			vAssert(o.terr == 0, "listers get no transfer error")
		} else {
			vAssert(o.terr == 1, "transfer error delivered exactly once")
		}
		vAssert(o.ctx.Err() != nil, "context cancelled at session end")
	}
}

//verif:constoverride (*github.com/pkg/sftp.packetManager).workerChan 8 2
func vh_C11_server_serve_sweep() {
	vEnvReset()
	svr := vNewServer(false, "")
	svr.pktMgr = newPktMgr(svr.serverConn)
	svr.handleCount = 2
	fs := []*vMFile{{name: "/f1", data: []byte{1}}, {name: "/f2", data: []byte{2}}}
	svr.openFiles["1"], svr.openFiles["2"] = fs[0], fs[1]
	if vNondetBool() {
		svr.serverConn.conn.Reader = &vReader{data: []byte{0, 0}}
	}
	svr.Serve()
	for _, f := range fs {
		vAssert(f.closed == 1, "leftover file closed exactly once")
	}
}

// the connection ends while an OPEN (or OPENDIR) is still in flight: the stream
// is the request and then nothing. Serve waits for its workers before it
// sweeps, so the object the handler hands out is closed exactly once by the time
// Serve returns, on every schedule (added after seeded change C11-f, which swept
// before the workers were done)
//
//verif:constoverride (*github.com/pkg/sftp.packetManager).workerChan 8 2
func vh_C11_rs_serve_open_in_flight() {
	vHErrKinds = 0
	vHReset()
	rs := vNewRequestServer(Handlers{vH{}, vH{}, vH{}, vH{}}, "/")
	rs.pktMgr = newPktMgr(rs.serverConn)
	var m interface{ MarshalBinary() ([]byte, error) }
	if vNondetBool() {
		m = &sshFxpOpenPacket{ID: 5, Path: "/f", Pflags: sshFxfRead}
	} else {
		m = &sshFxpOpendirPacket{ID: 5, Path: "/d"}
	}
	b, err := m.MarshalBinary()
	vAssert(err == nil, "marshals")
	n := len(b) - 4
	b[0], b[1], b[2], b[3] = byte(n>>24), byte(n>>16), byte(n>>8), byte(n)
	rs.serverConn.conn.Reader = &vReader{data: b}
	serr := rs.Serve()
	vAssert(serr != nil, "Serve reports the end of the stream")
	vAssert(len(rs.openRequests) == 0, "table empty")
	vAssert(len(vHObjs) == 1, "the handler was asked once")
	for _, o := range vHObjs {
		vAssert(o.closed == 1, "the object handed out for the request in flight is closed exactly once")
		vAssert(o.ctx != nil && o.ctx.Err() != nil, "its context is cancelled at session end")
	}
}
