//go:build verif

package sftp

import (
	"bytes"
	"context"
	"io"
	"os"
	"time"
)

//verif:redirect (*github.com/pkg/sftp.clientConn).sendPacket vStubSendPacket

var vReplyCap int // 0: default bound

func vReplyN() int {
	if vReplyCap > 0 {
		return vReplyCap
	}
	if vThorough() {
		return 40
	}
	return 24
}

var vCalls int  // requests seen so far in this operation
var vArbAt int  // index of the request that gets the arbitrary reply

// vReply is the peer: exactly one request of the operation (position vArbAt,
// every position is explored) is answered with an arbitrary packet type and
// arbitrary bytes, constrained only by what recv guarantees for a reply
// routed to this caller: at least 4 bytes, the first word being the request
// id. All other requests get a plain well-formed reply, so that the operation
// reaches each of its decoders. kind is the request's type byte.
func vReply(kind byte, id uint32, readLen uint32) (fxp, []byte) {
	k := vCalls
	vCalls++
	hdr := []byte{byte(id >> 24), byte(id >> 16), byte(id >> 8), byte(id)}
	if k == vArbAt {
		typ := vNondetU8()
		data := vNondetBytesC(vReplyN())
		vAssume(len(data) >= 4)
		data[0], data[1], data[2], data[3] = hdr[0], hdr[1], hdr[2], hdr[3]
		vConsumed(len(data))
		return fxp(typ), data
	}
	switch kind {
	case sshFxpOpen, sshFxpOpendir:
		return sshFxpHandle, append(hdr, 0, 0, 0, 1, 'h')
	case sshFxpStat, sshFxpLstat, sshFxpFstat:
		// ATTRS: size=20, regular file 0644
		return sshFxpAttrs, append(hdr, 0, 0, 0, 5, 0, 0, 0, 0, 0, 0, 0, 20, 0, 0, 0x81, 0xa4)
	case sshFxpRead:
		if k > vArbAt+1 {
			return sshFxpStatus, append(hdr, 0, 0, 0, 1, 0, 0, 0, 0, 0, 0, 0, 0)
		}
		n := readLen
		if n > 4 {
			n = 4
		}
		return sshFxpData, append(append(hdr, 0, 0, 0, byte(n)), make([]byte, n)...)
	case sshFxpReaddir:
		return sshFxpStatus, append(hdr, 0, 0, 0, 1, 0, 0, 0, 0, 0, 0, 0, 0)
	}
	return sshFxpStatus, append(hdr, 0, 0, 0, 0, 0, 0, 0, 0, 0, 0, 0, 0)
}

// under the engine the transport is cut out: sendPacket returns the peer's reply
func vStubSendPacket(c *clientConn, ctx context.Context, ch chan result, p idmarshaler) (fxp, []byte, error) {
	var kind byte = sshFxpExtended
	var rl uint32
	switch q := p.(type) {
	case *sshFxpOpenPacket:
		kind = sshFxpOpen
	case *sshFxpOpendirPacket:
		kind = sshFxpOpendir
	case *sshFxpStatPacket:
		kind = sshFxpStat
	case *sshFxpLstatPacket:
		kind = sshFxpLstat
	case *sshFxpFstatPacket:
		kind = sshFxpFstat
	case *sshFxpReadPacket:
		kind, rl = sshFxpRead, q.Len
	case *sshFxpReaddirPacket:
		kind = sshFxpReaddir
	}
	typ, data := vReply(kind, p.id(), rl)
	return typ, data, nil
}

// natively the same peer sits behind a real connection: the client is built
// with NewClientPipe and a goroutine answers every request frame with vReply.
func vNativeClient() *Client {
	c2sR, c2sW := io.Pipe()
	s2cR, s2cW := io.Pipe()
	go func() {
		defer s2cW.Close()
		first := true
		for {
			typ, payload, err := recvPacket(c2sR, nil, 0)
			if err != nil {
				return
			}
			if first {
				first = false
				s2cW.Write([]byte{0, 0, 0, 5, sshFxpVersion, 0, 0, 0, 3})
				continue
			}
			id := uint32(payload[0])<<24 | uint32(payload[1])<<16 | uint32(payload[2])<<8 | uint32(payload[3])
			var rl uint32
			if typ == sshFxpRead {
				t := payload[len(payload)-4:]
				rl = uint32(t[0])<<24 | uint32(t[1])<<16 | uint32(t[2])<<8 | uint32(t[3])
			}
			rt, data := vReply(byte(typ), id, rl)
			n := len(data) + 1
			frame := append([]byte{byte(n >> 24), byte(n >> 16), byte(n >> 8), byte(n), byte(rt)}, data...)
			if _, err := s2cW.Write(frame); err != nil {
				return
			}
		}
	}()
	c, err := NewClientPipe(s2cR, c2sW)
	if err != nil {
		panic(err)
	}
	return c
}

func vClient() *Client {
	vCalls, vArbAt, vReplyCap = 0, 0, 0
	vConsumed(0)
	var c *Client
	if vSymbolic() {
		c = &Client{clientConn: clientConn{inflight: make(map[uint32]chan<- result), closed: make(chan struct{})}}
	} else {
		c = vNativeClient()
	}
	c.ext = map[string]string{"fsync@openssh.com": "1"}
	c.maxPacket, c.maxConcurrentRequests, c.disableConcurrentReads = 8, 2, true
	return c
}

func vDone(c *Client) {
	if !vSymbolic() {
		c.Close()
	}
}

func vFile(c *Client) *File { return &File{c: c, path: "/f", handle: "h"} }

// a value the client hands out is a usable value: every FileInfo method can be
// called on it (added after seeded change C20-e, which returned entries
// without their attribute block)
func vTouchFI(fi os.FileInfo) {
	vAssert(fi != nil, "a nil error comes with a value")
	if fi == nil {
		return
	}
	_ = fi.Name()
	_ = fi.Size()
	_ = fi.Mode()
	_ = fi.ModTime()
	_ = fi.IsDir()
	_ = fi.Sys()
}

func vh_C20_readdir() {
	c := vClient()
	defer vDone(c)
	vArbAt = vChoice(3) // opendir, first readdir, (second readdir or close)
	fis, err := c.ReadDir("/d")
	for _, fi := range fis {
		vTouchFI(fi)
	}
	vEmit("n", len(fis))
	vEmit("err", err != nil)
}

func vh_C20_stat_family() {
	c := vClient()
	defer vDone(c)
	switch vChoice(4) {
	case 0:
		fi, err := c.Stat("/p")
		if err == nil {
			vTouchFI(fi)
		}
		vEmit("err", err != nil)
	case 1:
		fi, err := c.Lstat("/p")
		if err == nil {
			vTouchFI(fi)
		}
		vEmit("err", err != nil)
	case 2:
		fi, err := vFile(c).Stat()
		if err == nil {
			vTouchFI(fi)
		}
		vEmit("err", err != nil)
	case 3:
		st, err := c.StatVFS("/p")
		if err == nil {
			vAssert(st != nil, "a nil error comes with a value")
			_ = st.TotalSpace()
			_ = st.FreeSpace()
		}
		vEmit("err", err != nil)
	}
}

func vh_C20_name_family() {
	c := vClient()
	defer vDone(c)
	switch vChoice(3) {
	case 0:
		s, err := c.ReadLink("/p")
		vEmit("s", s)
		vEmit("err", err != nil)
	case 1:
		s, err := c.RealPath("p")
		vEmit("s", s)
		vEmit("err", err != nil)
	case 2:
		s, err := c.Getwd()
		vEmit("s", s)
		vEmit("err", err != nil)
	}
}

func vh_C20_status_family() {
	c := vClient()
	defer vDone(c)
	var err error
	switch vChoice(13) {
	case 0:
		err = c.Link("/a", "/b")
	case 1:
		err = c.Symlink("/a", "/b")
	case 2:
		err = c.Chtimes("/a", time.Unix(1, 0), time.Unix(2, 0))
	case 3:
		err = c.Chown("/a", 1, 2)
	case 4:
		err = c.Chmod("/a", 0o644)
	case 5:
		err = c.Truncate("/a", 3)
	case 6:
		err = c.SetExtendedData("/a", []StatExtended{{"k", "v"}})
	case 7:
		err = c.Rename("/a", "/b")
	case 8:
		err = c.PosixRename("/a", "/b")
	case 9:
		err = c.Mkdir("/a")
	case 10:
		err = c.RemoveDirectory("/a")
	case 11:
		err = c.Remove("/a")
	case 12:
		err = c.close("h")
	}
	vEmit("err", err != nil)
}

func vh_C20_open_family() {
	c := vClient()
	defer vDone(c)
	var f *File
	var err error
	switch vChoice(3) {
	case 0:
		f, err = c.Open("/a")
	case 1:
		f, err = c.Create("/a")
	case 2:
		f, err = c.OpenFile("/a", os.O_WRONLY|os.O_APPEND)
	}
	vEmit("err", err != nil)
	vAssert(vOr(err != nil, f != nil), "a File or an error")
	if err == nil && f != nil {
		vEmit("h", f.handle)
	}
}

func vh_C20_file_status_family() {
	c := vClient()
	defer vDone(c)
	f := vFile(c)
	var err error
	switch vChoice(6) {
	case 0:
		err = f.Chown(1, 2)
	case 1:
		err = f.Chmod(0o600)
	case 2:
		err = f.Truncate(5)
	case 3:
		err = f.Sync()
	case 4:
		err = f.SetExtendedData("", []StatExtended{{"k", "v"}})
	case 5:
		err = f.Close()
	}
	vEmit("err", err != nil)
}

func vh_C20_file_read() {
	c := vClient()
	defer vDone(c)
	vArbAt = vChoice(2)
	f := vFile(c)
	b := make([]byte, 5)
	var n int
	var err error
	switch vChoice(3) {
	case 0:
		n, err = f.Read(b)
	case 1:
		n, err = f.ReadAt(b, 7)
	case 2:
		// longer than maxPacket: sequential multi-chunk path
		b = make([]byte, 11)
		n, err = f.ReadAt(b, 0)
	}
	vAssert(n >= 0 && n <= len(b), "count within buffer")
	vEmit("n", n)
	vEmit("err", err != nil)
}

func vh_C20_file_write() {
	c := vClient()
	defer vDone(c)
	vArbAt = vChoice(2)
	f := vFile(c)
	var n int
	var err error
	switch vChoice(3) {
	case 0:
		n, err = f.Write([]byte("abc"))
	case 1:
		n, err = f.WriteAt([]byte("abc"), 9)
	case 2:
		n, err = f.Write([]byte("abcdefghijk"))
	}
	vEmit("n", n)
	vEmit("err", err != nil)
}

func vh_C20_file_stream() {
	c := vClient()
	defer vDone(c)
	vArbAt = vChoice(3)
	f := vFile(c)
	switch vChoice(3) {
	case 0:
		var w bytes.Buffer
		n, err := f.WriteTo(&w)
		vEmit("n", n)
		vEmit("err", err != nil)
	case 1:
		n, err := f.ReadFrom(bytes.NewReader([]byte("abcdefghijk")))
		vEmit("n", n)
		vEmit("err", err != nil)
	case 2:
		n, err := f.Seek(-1, 2)
		vEmit("n", n)
		vEmit("err", err != nil)
	}
}

func vh_C20_composites() {
	c := vClient()
	defer vDone(c)
	vArbAt = vChoice(4)
	var err error
	switch vChoice(2) {
	case 0:
		err = c.MkdirAll("/a/b")
	case 1:
		err = c.RemoveAll("/a")
	}
	vEmit("err", err != nil)
}

// unmarshalStatus itself: arbitrary id and bytes of any length
func vh_C20_unmarshalStatus() {
	id := vNondetU32()
	data := vNondetBytesC(vReplyN())
	vConsumed(len(data))
	err := unmarshalStatus(id, data)
	vAssert(err != nil, "always an error value")
}

// the decoders inside the background worker goroutines of the concurrent
// ReadAt path: one of the two chunk replies is arbitrary; a panic in a worker
// goroutine is a crash of the whole process
//
//verif:noredirect (*github.com/pkg/sftp.clientConn).sendPacket
//verif:redirect (*github.com/pkg/sftp.clientConn).dispatchRequest vStubDispatch
//verif:atomic-invisible
func vh_C20_readat_workers() {
	c := vClient()
	defer vDone(c)
	c.maxPacket, c.maxConcurrentRequests, c.disableConcurrentReads = 4, 1, false
	vReplyCap = 13 // id + length + up to 5 bytes: one more than the chunk asked for
	vArbAt = vChoice(2)
	f := vFile(c)
	b := make([]byte, 8)
	n, err := f.ReadAt(b, 0)
	vAssert(n >= 0 && n <= len(b), "count within buffer")
	vEmit("err", err != nil)
}

func vStubDispatch(c *clientConn, ch chan<- result, p idmarshaler) {
	typ, data, _ := vStubSendPacket(c, nil, nil, p)
	ch <- result{typ: typ, data: data}
}

// Not registered: does not finish (97k paths in 5 min, no violation in 35k complete traces).
// the decoder inside WriteTo's worker goroutine (concurrent path, one worker):
// the reply to one of the first two chunk requests is arbitrary
//
//verif:noredirect (*github.com/pkg/sftp.clientConn).sendPacket
//verif:redirect (*github.com/pkg/sftp.clientConn).sendPacket vStubSendPacket
//verif:redirect (*github.com/pkg/sftp.clientConn).dispatchRequest vStubDispatch
//verif:atomic-invisible
//verif:unwind 5
//verif:prune-unwind
//verif:tier manual
func vh_C20_writeto_worker() {
	c := vClient()
	defer vDone(c)
	c.maxPacket, c.maxConcurrentRequests, c.disableConcurrentReads, c.useFstat = 4, 1, false, true
	vReplyCap = 13
	vArbAt = 1 + vChoice(2) // request 0 is the size query (answered: 20 bytes, regular file)
	f := vFile(c)
	w := &vBuf{}
	n, err := f.WriteTo(w)
	vAssert(n >= 0 && int(n) == len(w.b), "count equals the bytes handed to the writer")
	vEmit("err", err != nil)
}
