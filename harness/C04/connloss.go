//go:build verif

package sftp

import (
	"errors"
	"io"
	"sync"
)

//verif:noredirect (*github.com/pkg/sftp.clientConn).sendPacket
//verif:noredirect (*github.com/pkg/sftp.clientConn).dispatchRequest

// ---- L0 lemmas ----

func vInflight(c *clientConn) ([]uint32, []chan result) {
	n := vChoice(4)
	ids := make([]uint32, n)
	chs := make([]chan result, n)
	for i := 0; i < n; i++ {
		ids[i] = vNondetU32()
		for j := 0; j < i; j++ {
			vAssume(ids[i] != ids[j])
		}
		chs[i] = make(chan result, 1)
		c.inflight[ids[i]] = chs[i]
	}
	return ids, chs
}

func vh_C04_broadcast() {
	c := &clientConn{inflight: make(map[uint32]chan<- result), closed: make(chan struct{})}
	ids, chs := vInflight(c)
	cause := errors.New("cause")
	c.broadcastErr(cause)
	for i := range chs {
		vAssert(len(chs[i]) == 1, "every waiting caller is notified exactly once")
		r := <-chs[i]
		vAssert(r.err == ErrSSHFxConnectionLost, "with connection-lost")
	}
	select {
	case <-c.closed:
	default:
		vAssert(false, "closed is closed")
	}
	vAssert(c.err == cause, "the cause is kept for Wait")
	// a late reply or send error for a hijacked entry must not reach the caller a second time
	for i := range ids {
		if ch, ok := c.getChannel(ids[i]); ok {
			ch <- result{err: io.EOF}
		}
		vAssert(len(chs[i]) == 0, "no second notification")
	}
	// callers registering afterwards are refused with exactly one error
	late := make(chan result, 1)
	vAssert(!c.putChannel(late, vNondetU32()), "putChannel refuses after closed")
	vAssert(len(late) == 1 && (<-late).err == ErrSSHFxConnectionLost, "and delivers exactly one error")
}

type vFailWriter struct {
	failFrom int
	writes   int
	b        []byte
}

func (w *vFailWriter) Write(p []byte) (int, error) {
	k := w.writes
	w.writes++
	if k >= w.failFrom {
		return 0, io.ErrClosedPipe
	}
	w.b = append(w.b, p...)
	return len(p), nil
}
func (w *vFailWriter) Close() error { return nil }

func vh_C04_dispatch_send_error() {
	c := &clientConn{inflight: make(map[uint32]chan<- result), closed: make(chan struct{})}
	w := &vFailWriter{failFrom: vChoice(3)}
	c.conn = conn{WriteCloser: w}
	ch := make(chan result, 1)
	// a WRITE packet needs two writes (header, payload)
	c.dispatchRequest(ch, &sshFxpWritePacket{ID: 5, Handle: "h", Length: 1, Data: []byte{1}})
	if w.failFrom < 2 {
		vAssert(len(ch) == 1 && (<-ch).err != nil, "a failed send is reported to the caller, once")
		_, still := c.inflight[5]
		vAssert(!still, "and the request is no longer in flight")
	} else {
		vAssert(len(ch) == 0, "a successful send reports nothing by itself")
		_, still := c.inflight[5]
		vAssert(still, "the request is in flight")
	}
}

// ---- L2: real recv/broadcastErr/Wait/Close, two callers, the server->client
// stream cut at a byte offset, client->server writes failing from some call on ----

type vCutPeer struct {
	buf      []byte
	out      chan []byte
	budget   int  // bytes of reply stream still to be delivered
	failFrom int  // Write calls from this index on fail
	writes   int
	full     map[string]bool // path -> reply delivered completely
	closed   bool
	endErr   bool
}

func (p *vCutPeer) finish() {
	if !p.closed {
		p.closed = true
		close(p.out)
	}
}

func (p *vCutPeer) Write(b []byte) (int, error) {
	k := p.writes
	p.writes++
	if k >= p.failFrom {
		return 0, io.ErrClosedPipe
	}
	p.buf = append(p.buf, b...)
	for len(p.buf) >= 4 {
		l := int(vBE32(p.buf))
		if len(p.buf) < 4+l {
			break
		}
		frame := p.buf[4 : 4+l]
		p.buf = p.buf[4+l:]
		id := frame[1:5]
		path, _ := vBodyStr(frame[5:])
		reply := refFrame(sshFxpAttrs, append(append([]byte{}, id...), 0, 0, 0, 1, 0, 0, 0, 0, 0, 0, 0, byte(len(path))))
		if p.closed {
			continue
		}
		n := len(reply)
		if n > p.budget {
			n = p.budget
		}
		if n > 0 {
			p.out <- reply[:n]
		}
		p.budget -= n
		if n == len(reply) {
			p.full[path] = true
		}
		if p.budget == 0 {
			p.finish()
		}
	}
	return len(b), nil
}

func (p *vCutPeer) Close() error {
	p.finish()
	return nil
}

const vReplyLen = 4 + 1 + 4 + 4 + 8

func vCuts() int {
	if vThorough() {
		return vChoice(2*vReplyLen + 1)
	}
	// inside the length, after the type byte, inside the body, one short of / exactly / one past a whole reply, ...
	return [10]int{0, 3, 5, 9, vReplyLen - 1, vReplyLen, vReplyLen + 1, vReplyLen + 6, 2*vReplyLen - 1, 2 * vReplyLen}[vChoice(10)]
}

//verif:atomic-invisible
func vh_C04_two_callers_cut() {
	out := make(chan []byte, 4)
	peer := &vCutPeer{out: out, budget: vCuts(), failFrom: [3]int{0, 1, 99}[vChoice(3)], full: map[string]bool{}}
	if peer.budget == 0 {
		peer.finish()
	}
	c := &Client{clientConn: clientConn{conn: conn{Reader: &vPipeReader{ch: out}, WriteCloser: peer},
		inflight: make(map[uint32]chan<- result), closed: make(chan struct{})}, ext: map[string]string{}, maxPacket: 4, maxConcurrentRequests: 2}
	c.clientConn.wg.Add(1)
	go func() {
		defer c.clientConn.wg.Done()
		if err := c.clientConn.recv(); err != nil {
			c.clientConn.broadcastErr(err)
		}
	}()
	var wg sync.WaitGroup
	var s [2]int64
	var e [2]error
	paths := [2]string{"/a", "/bcd"}
	wg.Add(2)
	for i := 0; i < 2; i++ {
		i := i
		go func() {
			defer wg.Done()
			fi, err := c.Stat(paths[i])
			e[i] = err
			if err == nil {
				s[i] = fi.Size()
			}
		}()
	}
	wg.Wait() // every caller returns (a hang is reported by the engine as a deadlock)
	for i := 0; i < 2; i++ {
		if e[i] == nil {
			vAssert(peer.full[paths[i]] && s[i] == int64(len(paths[i])), "a call succeeds only with its own, completely received reply")
		} else {
			vAssert(!peer.full[paths[i]], "a reply received completely before the failure is still returned")
		}
	}
	peer.finish() // the transport ends for good
	werr := c.Wait()
	vAssert(werr != nil, "Wait returns the cause")
	// operations started afterwards fail at once
	_, err := c.Stat("/late")
	vAssert(err != nil, "an operation started after the loss returns an error")
	c.Close()
}

// a two-chunk concurrent ReadAt in flight when the connection is lost
type vCutDataPeer struct {
	vCutPeer
	fullCount int
}

func (p *vCutDataPeer) Write(b []byte) (int, error) {
	k := p.writes
	p.writes++
	if k >= p.failFrom {
		return 0, io.ErrClosedPipe
	}
	p.buf = append(p.buf, b...)
	for len(p.buf) >= 4 {
		l := int(vBE32(p.buf))
		if len(p.buf) < 4+l {
			break
		}
		frame := p.buf[4 : 4+l]
		p.buf = p.buf[4+l:]
		id := frame[1:5]
		reply := refFrame(sshFxpData, append(append([]byte{}, id...), 0, 0, 0, 1, 0x5a))
		if p.closed {
			continue
		}
		n := len(reply)
		if n > p.budget {
			n = p.budget
		}
		if n > 0 {
			p.out <- reply[:n]
		}
		p.budget -= n
		if n == len(reply) {
			p.fullCount++
		}
		if p.budget == 0 {
			p.finish()
		}
	}
	return len(b), nil
}

const vDataReplyLen = 4 + 1 + 4 + 4 + 1

// Not registered: >480k paths in 13 min without finishing (no violation in 340k complete traces).
//
//verif:atomic-invisible
//verif:tier manual
func vh_C04_readat_in_flight() {
	out := make(chan []byte, 4)
	peer := &vCutDataPeer{}
	peer.out, peer.full = out, map[string]bool{}
	peer.budget = [6]int{0, 3, vDataReplyLen - 1, vDataReplyLen, vDataReplyLen + 5, 2 * vDataReplyLen}[vChoice(6)]
	peer.failFrom = [3]int{0, 1, 99}[vChoice(3)]
	if peer.budget == 0 {
		peer.finish()
	}
	c := &Client{clientConn: clientConn{conn: conn{Reader: &vPipeReader{ch: out}, WriteCloser: peer},
		inflight: make(map[uint32]chan<- result), closed: make(chan struct{})}, ext: map[string]string{}, maxPacket: 1, maxConcurrentRequests: 2}
	c.clientConn.wg.Add(1)
	go func() {
		defer c.clientConn.wg.Done()
		if err := c.clientConn.recv(); err != nil {
			c.clientConn.broadcastErr(err)
		}
	}()
	f := &File{c: c, path: "/f", handle: "h"}
	b := make([]byte, 2)
	n, err := f.ReadAt(b, 0) // returns (a hang is a deadlock in the engine)
	vAssert(n >= 0 && n <= 2, "count within buffer")
	if err == nil {
		vAssert(n == 2 && peer.fullCount == 2 && b[0] == 0x5a && b[1] == 0x5a, "success only with both replies received completely")
	}
	if peer.fullCount < 2 {
		vAssert(err != nil, "a lost reply makes the transfer fail")
	}
	peer.finish()
	vAssert(c.Wait() != nil, "Wait returns the cause")
	c.Close()
}

// ---- multi-chunk transfers in flight when the connection is lost, without
// the transport threads: the peer's Write plays the receive loop inline (real
// getChannel + delivery for the replies that still arrive, real broadcastErr
// for the loss), so the schedule space is that of the transfer's own workers.
// After `cutAfter` requests have gone out, any subset of them is answered in
// any order, then the connection is lost; later writes fail or vanish.

type vInlinePeer struct {
	c        *Client
	buf      []byte
	held     [][]byte // request frames not yet answered
	seen     int
	cutAfter int
	cut      bool
	content  []byte
	written  []byte
	answered int
	failLate bool
}

func (p *vInlinePeer) answer(frame []byte) {
	typ := frame[0]
	id := frame[1:5]
	sid := vBE32(id)
	_, rest := vBodyStr(frame[5:])
	off := int(vBE64(rest))
	var r result
	switch typ {
	case sshFxpRead:
		if off < len(p.content) {
			r = result{typ: sshFxpData, data: append(append([]byte{}, id...), 0, 0, 0, 1, p.content[off])}
		} else {
			r = result{typ: sshFxpStatus, data: append(append([]byte{}, id...), 0, 0, 0, 1, 0, 0, 0, 0, 0, 0, 0, 0)}
		}
	case sshFxpWrite:
		n := int(vBE32(rest[8:]))
		for len(p.written) < off+n {
			p.written = append(p.written, 0xee)
		}
		copy(p.written[off:], rest[12:12+n])
		r = result{typ: sshFxpStatus, data: append(append([]byte{}, id...), 0, 0, 0, 0, 0, 0, 0, 0, 0, 0, 0, 0)}
	default:
		r = result{typ: sshFxpStatus, data: append(append([]byte{}, id...), 0, 0, 0, 0, 0, 0, 0, 0, 0, 0, 0, 0)}
	}
	ch, ok := p.c.clientConn.getChannel(sid)
	vAssert(ok, "the request is registered when its reply arrives")
	if ok {
		ch <- r
		p.answered++
	}
}

func (p *vInlinePeer) lose() {
	p.cut = true
	// any subset of the outstanding requests is still answered, in any order
	for len(p.held) > 0 && vNondetBool() {
		k := vChoice(len(p.held))
		f := p.held[k]
		p.held = append(p.held[:k], p.held[k+1:]...)
		p.answer(f)
	}
	p.c.clientConn.broadcastErr(io.ErrUnexpectedEOF)
}

func (p *vInlinePeer) Write(b []byte) (int, error) {
	if p.cut {
		if p.failLate {
			return 0, io.ErrClosedPipe
		}
		return len(b), nil
	}
	p.buf = append(p.buf, b...)
	for len(p.buf) >= 4 {
		l := int(vBE32(p.buf))
		if len(p.buf) < 4+l {
			break
		}
		p.held = append(p.held, append([]byte{}, p.buf[4:4+l]...))
		p.buf = p.buf[4+l:]
		p.seen++
	}
	if p.seen >= p.cutAfter {
		p.lose()
	}
	return len(b), nil
}

func (p *vInlinePeer) Close() error { return nil }

func vTransferCut(op int) {
	const nc = 2 // chunks
	content := vNondetArray(nc)
	peer := &vInlinePeer{content: content, cutAfter: 1 + vChoice(nc), failLate: vNondetBool()}
	c := &Client{clientConn: clientConn{conn: conn{Reader: &vReader{}, WriteCloser: peer},
		inflight: make(map[uint32]chan<- result), closed: make(chan struct{})}, ext: map[string]string{}, maxPacket: 1, maxConcurrentRequests: 2}
	c.useConcurrentWrites = true
	peer.c = c
	f := &File{c: c, path: "/f", handle: "h"}
	b := make([]byte, nc)
	var n int
	var err error
	switch op {
	case 0:
		n, err = f.ReadAt(b, 0)
	case 1:
		copy(b, content)
		n, err = f.WriteAt(b, 0)
	case 2:
		copy(b, content)
		var n64 int64
		n64, err = f.ReadFromWithConcurrency(&vReader{data: b}, 2)
		n = int(n64)
	}
	// the call returned (a hang is a deadlock in the engine; leftover goroutines are a leak)
	vAssert(n >= 0 && n <= nc, "count within the buffer")
	vAssert(peer.cut, "the connection was lost during the transfer")
	if err == nil {
		vAssert(n == nc && peer.answered >= nc, "success only if every chunk's reply had arrived")
	}
	if peer.answered < nc {
		vAssert(err != nil, "a chunk whose reply was lost makes the transfer fail")
	}
	if op == 0 {
		for i := 0; i < n; i++ {
			vAssert(b[i] == content[i], "ReadAt: the first n bytes are the file's")
		}
	}
	if op == 1 && err != nil {
		for i := 0; i < n && i < len(peer.written); i++ {
			vAssert(peer.written[i] == content[i], "WriteAt: the first n bytes were written intact")
		}
		vAssert(n <= len(peer.written), "WriteAt: the count does not exceed what was acknowledged contiguously")
	}
	// an operation started afterwards fails at once
	_, err2 := c.Stat("/x")
	vAssert(err2 != nil, "an operation started after the loss returns an error")
	vEmit("op", op)
	vEmit("n", n)
}

//verif:atomic-invisible
func vh_C04_readat_cut() { vTransferCut(0) }

//verif:atomic-invisible
//verif:tier thorough
func vh_C04_writeat_cut() { vTransferCut(1) }

//verif:atomic-invisible
//verif:tier thorough
func vh_C04_readfrom_cut() { vTransferCut(2) }
