//go:build verif

package sftp

import (
	"io"
	"os"
	"sync"
)

// recording peer: logs every request, answers with a well-formed reply
type vSent struct {
	typ    byte
	handle string
}

var vSentLog []vSent
var vStatSize uint64

func vC12Peer(typ byte, body []byte) (fxp, []byte) {
	id := body[:4]
	switch typ {
	case sshFxpClose, sshFxpRead, sshFxpWrite, sshFxpFstat, sshFxpFsetstat:
		h, rest := vBodyStr(body[4:])
		vSentLog = append(vSentLog, vSent{typ, h})
		switch typ {
		case sshFxpRead:
			n := vBE32(rest[8:])
			if n > 2 {
				n = 2
			}
			return sshFxpData, append(append(append([]byte{}, id...), 0, 0, 0, byte(n)), make([]byte, n)...)
		case sshFxpFstat:
			s := vStatSize
			return sshFxpAttrs, append(append([]byte{}, id...), 0, 0, 0, 5, byte(s>>56), byte(s>>48), byte(s>>40), byte(s>>32), byte(s>>24), byte(s>>16), byte(s>>8), byte(s), 0, 0, 0x81, 0xa4)
		}
	case sshFxpExtended:
		_, rest := vBodyStr(body[4:])
		h, _ := vBodyStr(rest)
		vSentLog = append(vSentLog, vSent{typ, h})
	default:
		vSentLog = append(vSentLog, vSent{typ, ""})
	}
	return vStatusReply(id, sshFxOk)
}

func vC12File() (*File, *Client) {
	vSentLog = nil
	vPeer = vC12Peer
	c := vPeerClient()
	// whether the peer advertises fsync is its business (added after seeded change C12-e)
	if vNondetBool() {
		c.ext["fsync@openssh.com"] = "1"
	}
	c.maxPacket, c.maxConcurrentRequests, c.disableConcurrentReads = 4, 2, true
	return &File{c: c, path: "/f", handle: "h"}, c
}

// Seek: all 64-bit offsets and current offsets, all whence values, any file size
func vh_C12_seek() {
	f, c := vC12File()
	defer vPeerDone(c)
	cur := vNondetI64()
	vAssume(cur >= 0)
	f.offset = cur
	off := vNondetI64()
	whence := vNondetInt()
	vStatSize = vNondetU64()
	vAssume(vStatSize < 1<<62)
	got, err := f.Seek(off, whence)
	var want int64
	valid := true
	switch whence {
	case io.SeekStart:
		want = off
	case io.SeekCurrent:
		want = cur + off
	case io.SeekEnd:
		want = int64(vStatSize) + off
	default:
		valid = false
	}
	if !valid {
		vAssert(err != nil && f.offset == cur && got == cur, "unknown whence: error, offset unchanged")
		return
	}
	// the mathematical result, without wrap-around
	neg := want < 0
	if whence == io.SeekCurrent && off > 0 && want < cur {
		neg = false // overflowed past MaxInt64: outside os.File's defined behaviour, only 'no silent move backwards' is required
		vAssert(err != nil || f.offset >= 0, "overflowing seek never yields a negative offset")
		return
	}
	if whence == io.SeekEnd && off > 0 && want < off {
		vAssert(err != nil || f.offset >= 0, "overflowing seek never yields a negative offset")
		return
	}
	if neg {
		vAssert(err != nil && f.offset == cur && got == cur, "negative result is rejected without moving")
	} else {
		vAssert(err == nil && got == want && f.offset == want, "seek computes the start/current/end-relative position")
	}
	vEmit("got", got)
}

// offset bookkeeping of the sequential paths
func vh_C12_offsets() {
	f, c := vC12File()
	defer vPeerDone(c)
	cur := int64(vNondetU32())
	f.offset = cur
	n := vChoice(10)
	b := make([]byte, n)
	switch vChoice(4) {
	case 0:
		m, _ := f.Read(b)
		vAssert(f.offset == cur+int64(m), "Read advances the offset by the bytes read")
	case 1:
		m, err := f.Write(b)
		vAssert(f.offset == cur+int64(m) && (err != nil || m == n), "Write advances the offset by the bytes written")
	case 2:
		f.ReadAt(b, 3)
		vAssert(f.offset == cur, "ReadAt leaves the offset alone")
	case 3:
		f.WriteAt(b, 3)
		vAssert(f.offset == cur, "WriteAt leaves the offset alone")
	}
}

// closed state: every method returns os.ErrClosed, exactly one CLOSE was sent
// and nothing carrying the handle afterwards
func vh_C12_closed() {
	f, c := vC12File()
	defer vPeerDone(c)
	vAssert(f.Close() == nil, "first Close succeeds")
	vAssert(len(vSentLog) == 1 && vSentLog[0].typ == sshFxpClose && vSentLog[0].handle == "h", "exactly one CLOSE with the handle")
	var err error
	b := make([]byte, 3)
	switch vChoice(16) {
	case 0:
		err = f.Close()
	case 1:
		_, err = f.Read(b)
	case 2:
		_, err = f.ReadAt(b, 0)
	case 3:
		_, err = f.Write(b)
	case 4:
		_, err = f.WriteAt(b, 0)
	case 5:
		_, err = f.Seek(0, io.SeekStart)
	case 6:
		_, err = f.Stat()
	case 7:
		err = f.Truncate(1)
	case 8:
		err = f.Chmod(0o600)
	case 9:
		err = f.Chown(1, 1)
	case 10:
		err = f.Sync()
	case 11:
		_, err = f.ReadFrom(&vReader{data: []byte{1, 2, 3}})
	case 12:
		_, err = f.WriteTo(&vBuf{})
	case 13:
		_, err = f.ReadFromWithConcurrency(&vReader{data: []byte{1}}, 2)
	case 14:
		err = f.SetExtendedData("", nil)
	case 15:
		_, err = f.Seek(0, io.SeekEnd)
	}
	vAssert(err == os.ErrClosed, "every method returns os.ErrClosed after Close")
	vAssert(len(vSentLog) == 1, "nothing is sent after Close")
}

// offset bookkeeping of the concurrent ReadFrom path (all goroutines interpreted)
//
//verif:atomic-invisible
func vh_C12_offsets_readfrom_conc() {
	f, c := vC12File()
	defer vPeerDone(c)
	c.maxPacket, c.useConcurrentWrites = 1, true
	cur := int64(vNondetU32())
	f.offset = cur
	l := 1 + vChoice(2)
	src := make([]byte, l)
	var n int64
	var err error
	if vNondetBool() {
		n, err = f.ReadFromWithConcurrency(&vReader{data: src}, 2)
	} else {
		n, err = f.ReadFrom(&vLenReader{vReader{data: src}}) // has Len(): concurrent when longer than a packet
	}
	vAssert(err == nil && n == int64(l), "whole source consumed")
	vAssert(f.offset == cur+n, "ReadFrom advances the offset by the bytes transferred")
}

type vLenReader struct{ r vReader }

func (p *vLenReader) Read(b []byte) (int, error) { return p.r.Read(b) }
func (p *vLenReader) Len() int                     { return len(p.r.data) - p.r.pos }

// Close racing with another method: whatever the interleaving, no request
// carrying the handle reaches the peer after the CLOSE, exactly one CLOSE is
// sent, and the loser of the race gets os.ErrClosed.
//
//verif:atomic-invisible
func vh_C12_close_race() {
	f, c := vC12File()
	defer vPeerDone(c)
	k := vChoice(5)
	var wg sync.WaitGroup
	var cerr, oerr error
	wg.Add(2)
	go func() {
		defer wg.Done()
		cerr = f.Close()
	}()
	go func() {
		defer wg.Done()
		b := make([]byte, 2)
		switch k {
		case 0:
			_, oerr = f.ReadAt(b, 0)
		case 1:
			_, oerr = f.WriteAt(b, 0)
		case 2:
			_, oerr = f.Stat()
		case 3:
			oerr = f.Truncate(1)
		case 4:
			oerr = f.Close()
		}
	}()
	wg.Wait()
	closes, closeAt := 0, -1
	for i, s := range vSentLog {
		if s.typ == sshFxpClose {
			closes++
			closeAt = i
		}
	}
	vAssert(closes == 1, "exactly one CLOSE is sent")
	for i, s := range vSentLog {
		if i > closeAt {
			vAssert(s.handle != "h", "no request carrying the closed handle is sent after the CLOSE")
		}
	}
	vAssert(cerr == nil || k == 4, "Close succeeds")
	vAssert(oerr == nil || oerr == os.ErrClosed, "the other call either ran before the close or reports os.ErrClosed")
	if k == 4 {
		vAssert((cerr == nil) != (oerr == nil), "of two Close calls exactly one wins")
	}
}

// ---- sequential transfers against a peer that serves a finite file in short
// reads and may fail one data request (added after seeded change C12-b)

var (
	vC12Size     int // remote file size for READ
	vC12FailAt   int // index of the READ/WRITE that fails (-1: none)
	vC12DataReqs int
	vC12Moved    int64 // bytes delivered in DATA replies / accepted by OK'd WRITEs
	vC12Base     int64 // File offset when the call started
	vC12Contig   bool  // every data request started at base+moved
)

func vC12FailingPeer(typ byte, body []byte) (fxp, []byte) {
	id := body[:4]
	switch typ {
	case sshFxpRead, sshFxpWrite:
		_, rest := vBodyStr(body[4:])
		off := int64(vBE64(rest))
		if off != vC12Base+vC12Moved {
			vC12Contig = false
		}
		k := vC12DataReqs
		vC12DataReqs++
		if k == vC12FailAt {
			return vStatusReply(id, sshFxFailure)
		}
		if typ == sshFxpWrite {
			vC12Moved += int64(vBE32(rest[8:]))
			return vStatusReply(id, sshFxOk)
		}
		pos := off - vC12Base
		if pos >= int64(vC12Size) {
			return vStatusReply(id, sshFxEOF)
		}
		n := int64(vBE32(rest[8:]))
		if n > 2 {
			n = 2 // short reads
		}
		if n > int64(vC12Size)-pos {
			n = int64(vC12Size) - pos
		}
		vC12Moved += n
		return sshFxpData, append(append(append([]byte{}, id...), 0, 0, 0, byte(n)), make([]byte, n)...)
	}
	return vStatusReply(id, sshFxOk)
}

// Read, Write, ReadFrom and WriteTo on their sequential paths: requests start at
// the current offset and continue contiguously, and the offset ends up advanced by
// exactly the bytes the peer delivered or accepted - also when one request fails.
func vh_C12_offsets_failing() {
	f, c := vC12File()
	defer vPeerDone(c)
	vPeer = vC12FailingPeer
	cur := int64(vNondetU32())
	f.offset = cur
	vC12Base, vC12Moved, vC12DataReqs, vC12Contig = cur, 0, 0, true
	vC12Size = vChoice(7)
	vC12FailAt = vChoice(5) - 1
	n := vChoice(10)
	b := make([]byte, n)
	op := vChoice(4)
	var got int64
	var err error
	switch op {
	case 0:
		var m int
		m, err = f.Read(b)
		got = int64(m)
	case 1:
		var m int
		m, err = f.Write(b)
		got = int64(m)
	case 2:
		_, err = f.ReadFrom(&vReader{data: b}) // no Len(): the sequential loop
		got = vC12Moved
	case 3:
		got, err = f.WriteTo(&vBuf{})
	}
	vAssert(vC12Contig, "every data request of a sequential transfer starts at the current offset plus the bytes moved so far")
	vAssert(f.offset == cur+vC12Moved, "the offset advances by exactly the bytes transferred, also when a request fails")
	vAssert(got == vC12Moved, "the returned count is the number of bytes transferred")
	if vC12FailAt >= 0 && vC12DataReqs > vC12FailAt {
		vAssert(err != nil, "a failed data request is reported")
	}
	vEmit("op", op)
	vEmit("moved", vC12Moved)
}
