//go:build verif

package sftp

import "context"


//verif:constoverride (*github.com/pkg/sftp.packetManager).workerChan 8 2



func vh_C14_write_write_read_close() {
	vErrKinds = 0
	ids := vIDs(3)
	svr := vNewServer(false, "")
	f := &vMFile{name: "/o", data: []byte{0, 0, 0, 0}, yield: true}
	svr.openFiles["1"] = f
	resp := vPipelineOpt(svr, []requestPacket{
		&sshFxpWritePacket{ID: ids[0], Handle: "1", Offset: 0, Length: 1, Data: []byte{9}},
		&sshFxpReadPacket{ID: ids[1], Handle: "1", Offset: 2, Len: 1},
		&sshFxpClosePacket{ID: ids[2], Handle: "1"},
	}, false)
	vAssert(f.closed == 1, "file closed exactly once")
	vAssert(f.inAtClose == 0, "no read or write in flight when Close runs")
	vAssert(f.afterClose == 0, "no read or write after Close")
	vAssert(f.reads == 1 && f.writes == 1, "both transfers ran")
	vAssert(f.data[0] == 9, "write took effect")
	vAssert(len(resp) == 3, "three responses")
	if len(resp) == 3 {
		ok := 0
		for _, b := range resp {
			if c, isS := vStatusCode(b); (isS && c == sshFxOk) || b[4] == sshFxpData {
				ok++
			}
		}
		vAssert(ok == 3, "all three succeed")
		vAssert(vRespID(resp[2]) == ids[2], "the CLOSE completes last")
	}
}

// reads only before the CLOSE (the barrier covers reads just as writes; added
// after seeded change C14-b)
func vh_C14_read_read_close() {
	vErrKinds = 0
	ids := vIDs(3)
	svr := vNewServer(false, "")
	f := &vMFile{name: "/o", data: []byte{1, 2, 3, 4}, yield: true}
	svr.openFiles["1"] = f
	resp := vPipelineOpt(svr, []requestPacket{
		&sshFxpReadPacket{ID: ids[0], Handle: "1", Offset: 0, Len: 1},
		&sshFxpReadPacket{ID: ids[1], Handle: "1", Offset: 2, Len: 1},
		&sshFxpClosePacket{ID: ids[2], Handle: "1"},
	}, false)
	vAssert(f.closed == 1, "file closed exactly once")
	vAssert(f.inAtClose == 0, "no read in flight when Close runs")
	vAssert(f.afterClose == 0, "no read after Close")
	vAssert(f.reads == 2, "both reads ran")
	vAssert(len(resp) == 3, "three responses")
	if len(resp) == 3 {
		vAssert(resp[0][4] == sshFxpData && resp[1][4] == sshFxpData, "both reads return data")
		vAssert(vRespID(resp[2]) == ids[2], "the CLOSE completes last")
	}
}

// the request server: the handler object behind a write-only or read-write
// handle is closed only after the transfers sent before the CLOSE are done with
// it. The maximum payload is scaled to 1 so that a two-byte WRITE is "larger
// than the maximum payload" (added after seeded change C14-e)
func vh_C14_reqserver_close() {
	vErrKinds, vHErrKinds = 0, 0
	vHReset()
	ids := vIDs(3)
	rs := vNewRequestServer(Handlers{vH{}, vHOpenFile{}, vH{}, vH{}}, "/")
	rs.maxTxPacket = 1
	f := &vMFile{name: "/o", data: []byte{0, 0, 0, 0}, yield: true}
	req := &Request{Filepath: "/o", handle: "1"}
	req.ctx, req.cancelCtx = context.WithCancel(context.Background())
	rw := vThorough() && vNondetBool() // (quick tier: the write-only handle)
	var second requestPacket
	if rw {
		req.Method, req.writerAtReaderAt = "Open", vHFile{f}
		second = &sshFxpReadPacket{ID: ids[1], Handle: "1", Offset: 3, Len: 1}
	} else {
		req.Method, req.writerAt = "Put", vHFile{f}
		second = &sshFxpWritePacket{ID: ids[1], Handle: "1", Offset: 3, Length: 1, Data: []byte{7}}
	}
	rs.openRequests["1"] = req
	rs.handleCount = 1
	resp := vRSPipeline(rs, []requestPacket{
		&sshFxpWritePacket{ID: ids[0], Handle: "1", Offset: 0, Length: 2, Data: []byte{9, 8}},
		second,
		&sshFxpClosePacket{ID: ids[2], Handle: "1"},
	})
	vAssert(f.closed == 1, "handler object closed exactly once")
	vAssert(f.inAtClose == 0, "no read or write in flight when Close runs")
	vAssert(f.afterClose == 0, "no read or write after Close")
	vAssert(f.data[0] == 9 && f.data[1] == 8, "the write took effect")
	vAssert(len(resp) == 3, "three responses")
	if len(resp) == 3 {
		vAssert(vRespID(resp[2]) == ids[2], "the CLOSE completes last")
		for _, b := range resp {
			c, isS := vStatusCode(b)
			vAssert(b[4] == sshFxpData || (isS && c == sshFxOk), "every request succeeds")
		}
	}
}

// two handles: the close of one waits for (all) earlier reads/writes; requests
// on the other handle keep flowing
//
//verif:tier thorough
func vh_C14_two_handles() {
	vErrKinds = 0
	ids := vIDs(4)
	svr := vNewServer(false, "")
	f := &vMFile{name: "/o", data: []byte{0, 0, 0, 0}, yield: true}
	g := &vMFile{name: "/p", data: []byte{5, 5, 5, 5}, yield: true}
	svr.openFiles["1"] = f
	svr.openFiles["2"] = g
	resp := vPipelineOpt(svr, []requestPacket{
		&sshFxpWritePacket{ID: ids[0], Handle: "1", Offset: 0, Length: 1, Data: []byte{9}},
		&sshFxpReadPacket{ID: ids[1], Handle: "2", Offset: 1, Len: 2},
		&sshFxpClosePacket{ID: ids[2], Handle: "1"},
		&sshFxpReadPacket{ID: ids[3], Handle: "2", Offset: 0, Len: 1},
	}, false)
	vAssert(f.closed == 1 && f.inAtClose == 0 && f.afterClose == 0, "handle 1: closed once, nothing in flight at or after Close")
	vAssert(g.closed == 0 && g.reads == 2, "handle 2 untouched by the close, both reads ran")
	vAssert(len(resp) == 4, "four responses")
}
