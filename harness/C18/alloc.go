//go:build verif

package sftp

import "io"

func vSamePage(a, b []byte) bool { return &a[0] == &b[0] }

// vAllocState builds an arbitrary allocator state satisfying the
// representation invariant: up to 3 pages, each either available or in use
// by one of the order ids 1..3; no page in two places.
func vAllocState() (*allocator, [][]byte) {
	a := newAllocator()
	var pages [][]byte
	n := vChoice(4)
	for i := 0; i < n; i++ {
		p := vHavocBytes(maxMsgLength)
		pages = append(pages, p)
		switch k := vChoice(4); k {
		case 0:
			a.available = append(a.available, p)
		default:
			a.used[uint32(k)] = append(a.used[uint32(k)], p)
		}
	}
	return a, pages
}

// places counts in how many lists page p occurs
func vPlaces(a *allocator, p []byte) int {
	n := 0
	for _, q := range a.available {
		if vSamePage(p, q) {
			n++
		}
	}
	for _, l := range a.used {
		for _, q := range l {
			if vSamePage(p, q) {
				n++
			}
		}
	}
	return n
}

func vh_C18_state_machine() {
	a, pages := vAllocState()
	id := uint32(1 + vChoice(4))
	switch vChoice(3) {
	case 0:
		usedBefore := a.countUsedPages()
		availBefore := a.countAvailablePages()
		p := a.GetPage(id)
		vAssert(len(p) == maxMsgLength, "page has the fixed size")
		vAssert(vPlaces(a, p) == 1, "the page handed out is in exactly one list (not lent twice, not still available)")
		mine := false
		for _, q := range a.used[id] {
			mine = mine || vSamePage(p, q)
		}
		vAssert(mine, "the page is marked in use by the requesting order id")
		vAssert(a.countUsedPages() == usedBefore+1, "one more page in use")
		vAssert(a.countAvailablePages() == availBefore || a.countAvailablePages() == availBefore-1, "taken from the available ones or freshly allocated")
		for _, q := range pages {
			vAssert(vPlaces(a, q) == 1, "every other page stays in exactly one place")
		}
	case 1:
		mine := len(a.used[id])
		total := a.countUsedPages() + a.countAvailablePages()
		a.ReleasePages(id)
		vAssert(!a.isRequestOrderIDUsed(id), "nothing is in use for the released id")
		vAssert(a.countUsedPages()+a.countAvailablePages() == total, "no page lost or duplicated")
		vAssert(len(a.used[id]) == 0 && a.countAvailablePages() >= mine, "its pages became available")
		for _, q := range pages {
			vAssert(vPlaces(a, q) == 1, "every page stays in exactly one place")
		}
	case 2:
		a.Free()
		vAssert(a.countUsedPages() == 0 && a.countAvailablePages() == 0, "Free drops everything")
	}
}

// release-after-send and tagging: the lemmas live in common_sftp/common_alloc.go
// (C15 relies on them as well)
func vh_C18_release_after_send() { vAllocReleaseAfterSend() }

func vh_C18_pages_tagged() { vAllocPagesTagged() }

// differential: the READ branch of both servers with the allocator on and off
// gives byte-identical responses (dirty pages included)
func vh_C18_read_differential() {
	vErrKinds = 0
	maxTx := vNondetU32()
	vAssume(maxTx >= 32768) // what WithMaxTxPacket admits
	// (values between 1 MiB and 4 GiB-16 only make the native replay allocate gigabytes)
	vAssume(maxTx <= 1<<20 || maxTx >= 0xFFFFFFF0)
	rlen := vNondetU32()
	off := uint64(vNondetU8() & 7)
	data := vNondetBytesC(6)
	oid := uint32(1)
	pkt := &sshFxpReadPacket{ID: vNondetU32(), Handle: "1", Offset: off, Len: rlen}
	run := func(withAlloc bool, rs bool) []byte {
		vEnvReset()
		vHReset()
		var alloc *allocator
		if withAlloc {
			alloc = newAllocator()
			alloc.available = append(alloc.available, vHavocBytes(maxMsgLength)) // a dirty, previously used page
		}
		fdata := append([]byte{}, data...)
		if rs {
			s := vNewRequestServer(Handlers{vH{}, vH{}, vH{}, vH{}}, "/")
			s.maxTxPacket, s.pktMgr.alloc = maxTx, alloc
			_, o := vOpenRequestOfKind(s, 0)
			o.data = fdata
			s.pktMgr.packetCount = oid - 1
			r, err := vRSStep(s, pkt)
			vAssert(err == nil, "worker continues")
			return vRespBytes(r)
		}
		s := vNewServer(false, "")
		s.maxTxPacket, s.pktMgr.alloc = maxTx, alloc
		s.openFiles["1"] = &vMFile{name: "/o", data: fdata}
		s.pktMgr.packetCount = oid - 1
		r, _, err := vWorkerStep(s, pkt)
		vAssert(err == nil, "worker continues")
		return vRespBytes(r)
	}
	rs := vNondetBool()
	off0 := run(false, rs)
	on := run(true, rs)
	vAssert(vBytesEq(off0, on), "allocator on/off: byte-identical response")
	vEmit("resp", on)
}

// differential over every request kind: the same request bytes received into
// a fresh buffer (allocator off) and into a recycled, dirty page (allocator
// on), decoded and served by the real worker step under the same environment
// answers, give byte-identical responses - both servers. (The READ branch with
// symbolic lengths and limits is vh_C18_read_differential.)
// (quick tier only: with the thorough tier's longer paths cvc5 answers unknown
// on one comparison of two symbolic-length status messages, which the
// cross-solver rule counts as inconclusive; z3 4.8.12 and 5.1.0 decide it)
//
//verif:tier quickonly
func vh_C18_request_differential() { vReqDiff(vChoice(vNKinds)) }

func vReqDiff(k int) {
	vErrKinds, vHErrKinds = 2, 2
	pkt := vSymRequest(k)
	kn := vKindName(pkt)
	if _, isRead := pkt.(*sshFxpReadPacket); isRead {
		return // symbolic lengths and limits: vh_C18_read_differential
	}
	if od, ok := pkt.(*sshFxpOpendirPacket); ok {
		// (the "not a directory" status quotes the path: comparing two messages of
		// symbolic length byte by byte is a 10 s query; a concrete path here)
		od.Path = "/d"
	}
	m, ok := pkt.(interface{ MarshalBinary() ([]byte, error) })
	if !ok {
		return // (the server-side wrapper of extended requests has no encoder; see vh_C02_*_loop_to_reply)
	}
	wire, merr := m.MarshalBinary()
	vAssert(merr == nil, kn+": marshals")
	n := len(wire) - 4
	wire[0], wire[1], wire[2], wire[3] = byte(n>>24), byte(n>>16), byte(n>>8), byte(n)
	rs := vNondetBool()
	vTape = nil
	run := func(withAlloc bool) []byte {
		vEnvReset()
		vHReset()
		var alloc *allocator
		if withAlloc {
			alloc = newAllocator()
			alloc.available = append(alloc.available, vHavocBytes(maxMsgLength))
		}
		typ, body, err := recvPacket(&vReader{data: wire}, alloc, 1)
		vAssert(err == nil, kn+": the frame is received")
		p, err := makePacket(rxPacket{typ, body})
		vAssert(err == nil && p != nil, kn+": the request decodes")
		if rs {
			s := vNewRequestServer(Handlers{vH{}, vHOpenFile{}, vHCmdAll{}, vHListAll{}}, "/")
			s.pktMgr.alloc = alloc
			vOpenRequestOfKind(s, 2)
			r, err := vRSStep(s, p)
			vAssert(err == nil, kn+": worker continues")
			return vRespBytes(r)
		}
		s := vNewServer(false, "")
		s.pktMgr.alloc = alloc
		s.openFiles["1"] = &vMFile{name: "/o", data: []byte{1, 2, 3}}
		s.handleCount = 1
		r, _, err := vWorkerStep(s, p)
		vAssert(err == nil, kn+": worker continues")
		return vRespBytes(r)
	}
	off := run(false)
	on := run(true)
	vAssert(vBytesEq(off, on), kn+": allocator on/off give byte-identical responses")
	vEmit("typ", int(on[4]))
}

// construction: the option enables ONE allocator for both the receive side
// (conn) and the packet manager - pages handed out for incoming packets are
// the pages the manager releases; without the option there is none
//
//verif:noleakcheck
func vh_C18_constructors() {
	rwc := struct {
		io.Reader
		io.WriteCloser
	}{&vReader{}, &vBuf{}}
	on := vNondetBool()
	if vNondetBool() {
		var opts []ServerOption
		if on {
			opts = append(opts, WithAllocator())
		}
		s, err := NewServer(rwc, opts...)
		vAssert(err == nil && s != nil, "NewServer")
		vAssert((s.pktMgr.alloc != nil) == on && s.serverConn.conn.alloc == s.pktMgr.alloc, "Server: one allocator for receive side and packet manager, iff enabled")
		close(s.pktMgr.fini)
	} else {
		var opts []RequestServerOption
		if on {
			opts = append(opts, WithRSAllocator())
		}
		rs := NewRequestServer(rwc, Handlers{vH{}, vH{}, vH{}, vH{}}, opts...)
		vAssert(rs != nil, "NewRequestServer")
		vAssert((rs.pktMgr.alloc != nil) == on && rs.serverConn.conn.alloc == rs.pktMgr.alloc, "RequestServer: one allocator for receive side and packet manager, iff enabled")
		close(rs.pktMgr.fini)
	}
}
