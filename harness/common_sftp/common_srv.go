//go:build verif

package sftp

// Environment model for the os-backed server: every os entry point the server
// calls is redirected (under the engine) to a recording stub that returns an
// arbitrary outcome of the documented type. Nothing here is used natively
// except by hand-written twins.

import (
	"encoding"
	"io"
	"io/fs"
	"os"
	"sync"
	"syscall"
	"time"
)

//verif:redirect os.Stat vStubStat
//verif:redirect os.Lstat vStubLstat
//verif:redirect (*github.com/pkg/sftp.Server).stat vStubSrvStat
//verif:redirect (*github.com/pkg/sftp.Server).lstat vStubSrvLstat
//verif:redirect (*github.com/pkg/sftp.Server).openfile vStubOpenfile
//verif:redirect os.Mkdir vStubMkdir
//verif:redirect os.Remove vStubRemove
//verif:redirect os.Rename vStubRename
//verif:redirect os.Symlink vStubSymlink
//verif:redirect os.Link vStubLink
//verif:redirect os.Readlink vStubReadlink
//verif:redirect os.Truncate vStubTruncate
//verif:redirect os.Chmod vStubChmod
//verif:redirect os.Chown vStubChown
//verif:redirect os.Chtimes vStubChtimes
//verif:redirect path/filepath.Abs vStubAbs
//verif:redirect syscall.Statfs vStubStatfs
//verif:redirect github.com/pkg/sftp.runLs vStubRunLs

type vCall struct {
	Op     string
	P1, P2 string
	Flag   int
	Mode   uint32
	N1, N2 int64
}

var (
	vEnvLog    []vCall
	vMutations int // calls that modify the (modelled) file system
	vWriteOpen int // opens with write access / create / truncate
	vTape      []int
	vTapePos   int
	vErrKinds  = 2 // number of distinct outcomes vOsErr may produce (0 = always nil)
)

func vEnvReset() {
	vEnvLog, vMutations, vWriteOpen, vTapePos = nil, 0, 0, 0
}

// vAns returns the next environment answer in [0,n). Answers are recorded on
// a tape so that a second run (twin) sees the same environment.
func vAns(n int) int {
	if vTapePos < len(vTape) {
		v := vTape[vTapePos]
		vTapePos++
		return v
	}
	v := vChoice(n)
	vTape = append(vTape, v)
	vTapePos++
	return v
}

// vOsErr: nil or one of the error values package os / syscall produce.
func vOsErr() error {
	if vErrKinds == 0 {
		return nil
	}
	switch vAns(vErrKinds) {
	case 0:
		return nil
	case 1:
		return &os.PathError{Op: "op", Path: "p", Err: syscall.EACCES}
	case 2:
		return &os.PathError{Op: "op", Path: "p", Err: syscall.ENOENT}
	case 3:
		return syscall.EIO
	case 4:
		return &os.LinkError{Op: "op", Old: "a", New: "b", Err: syscall.EPERM}
	case 5:
		return fs.ErrNotExist
	default:
		return io.EOF
	}
}

func vLogCall(c vCall) { vEnvLog = append(vEnvLog, c) }

func vMutate(c vCall) error {
	vLogCall(c)
	vMutations++
	return vOsErr()
}

// vStatFI, when set, is what every stat of the model file system reports
var vStatFI os.FileInfo

func vStatResult(op, name string) (os.FileInfo, error) {
	vLogCall(vCall{Op: op, P1: name})
	if err := vOsErr(); err != nil {
		return nil, err
	}
	if vStatFI != nil {
		return vStatFI, nil
	}
	if vAns(2) == 1 {
		return &vFI{name: "d", size: 0, mode: os.ModeDir | 0o755, mtime: time.Unix(5, 0)}, nil
	}
	return &vFI{name: "f", size: 7, mode: 0o644, mtime: time.Unix(5, 0)}, nil
}

func vStubStat(name string) (os.FileInfo, error)              { return vStatResult("Stat", name) }
func vStubLstat(name string) (os.FileInfo, error)             { return vStatResult("Lstat", name) }
func vStubSrvStat(s *Server, name string) (os.FileInfo, error)  { return vStatResult("Stat", name) }
func vStubSrvLstat(s *Server, name string) (os.FileInfo, error) { return vStatResult("Lstat", name) }

func vStubMkdir(name string, perm os.FileMode) error {
	return vMutate(vCall{Op: "Mkdir", P1: name, Mode: uint32(perm)})
}
func vStubRemove(name string) error       { return vMutate(vCall{Op: "Remove", P1: name}) }
func vStubRename(a, b string) error       { return vMutate(vCall{Op: "Rename", P1: a, P2: b}) }
func vStubSymlink(a, b string) error      { return vMutate(vCall{Op: "Symlink", P1: a, P2: b}) }
func vStubLink(a, b string) error         { return vMutate(vCall{Op: "Link", P1: a, P2: b}) }
func vStubTruncate(name string, n int64) error {
	return vMutate(vCall{Op: "Truncate", P1: name, N1: n})
}
func vStubChmod(name string, m os.FileMode) error {
	return vMutate(vCall{Op: "Chmod", P1: name, Mode: uint32(m)})
}
func vStubChown(name string, uid, gid int) error {
	return vMutate(vCall{Op: "Chown", P1: name, N1: int64(uid), N2: int64(gid)})
}
func vStubChtimes(name string, at, mt time.Time) error {
	return vMutate(vCall{Op: "Chtimes", P1: name, N1: at.Unix(), N2: mt.Unix()})
}

func vStubReadlink(name string) (string, error) {
	vLogCall(vCall{Op: "Readlink", P1: name})
	if err := vOsErr(); err != nil {
		return "", err
	}
	return "tgt", nil
}

func vStubAbs(p string) (string, error) {
	if len(p) > 0 && p[0] == '/' {
		return p, nil
	}
	return "/cwd/" + p, nil
}

func vStubStatfs(name string, st *syscall.Statfs_t) error {
	vLogCall(vCall{Op: "Statfs", P1: name})
	if err := vOsErr(); err != nil {
		return err
	}
	st.Bsize, st.Frsize, st.Blocks, st.Bfree, st.Bavail, st.Files, st.Ffree, st.Namelen = 4096, 4096, 100, 50, 40, 1000, 900, 255
	return nil
}

func vStubRunLs(idLookup NameLookupFileLister, dirent os.FileInfo) string { return "l" }

// ---- model file ----

type vMFile struct {
	name    string
	data    []byte
	dir     bool
	ents    []os.FileInfo
	dirPos  int
	closed  int
	inAtClose  int // calls in flight when Close ran
	afterClose int // ReadAt/WriteAt calls that started after Close
	reads   int
	writes  int
	inCall  int // calls currently executing (for C14)
	maxIn   int
	mu      sync.Mutex
	yield   bool // make ReadAt/WriteAt visible scheduling points
	failAll bool
}

var vOpened []*vMFile

func vStubOpenfile(s *Server, path string, flag int, mode fs.FileMode) (file, error) {
	vLogCall(vCall{Op: "OpenFile", P1: path, Flag: flag, Mode: uint32(mode)})
	if flag&(os.O_WRONLY|os.O_RDWR|os.O_CREATE|os.O_TRUNC|os.O_APPEND) != 0 {
		vWriteOpen++
	}
	if flag&(os.O_CREATE|os.O_TRUNC) != 0 {
		vMutations++
	}
	if err := vOsErr(); err != nil {
		return nil, err
	}
	f := &vMFile{name: path, data: []byte{1, 2, 3}}
	vOpened = append(vOpened, f)
	return f, nil
}

func (f *vMFile) Name() string { return f.name }

func (f *vMFile) Stat() (os.FileInfo, error) {
	vLogCall(vCall{Op: "f.Stat", P1: f.name})
	if err := vOsErr(); err != nil {
		return nil, err
	}
	if vStatFI != nil {
		return vStatFI, nil
	}
	m := os.FileMode(0o644)
	if f.dir {
		m = os.ModeDir | 0o755
	}
	return &vFI{name: "f", size: int64(len(f.data)), mode: m, mtime: time.Unix(5, 0)}, nil
}

// under the engine the code between two visible operations is atomic, so the
// bookkeeping needs no lock there (natively it does)
func (f *vMFile) lock() {
	if !vSymbolic() {
		f.mu.Lock()
	}
}
func (f *vMFile) unlock() {
	if !vSymbolic() {
		f.mu.Unlock()
	}
}

func (f *vMFile) enter() {
	f.lock()
	if f.closed > 0 {
		f.afterClose++
	}
	f.inCall++
	if f.inCall > f.maxIn {
		f.maxIn = f.inCall
	}
	f.unlock()
	if f.yield {
		vYield(1)
	}
}

func (f *vMFile) leave() {
	f.lock()
	f.inCall--
	f.unlock()
}

func (f *vMFile) ReadAt(b []byte, off int64) (int, error) {
	f.enter()
	defer f.leave()
	f.reads++
	vLogCall(vCall{Op: "f.ReadAt", P1: f.name, N1: int64(len(b)), N2: off})
	if f.closed > 0 {
		return 0, os.ErrClosed
	}
	if off < 0 {
		return 0, syscall.EINVAL
	}
	if off >= int64(len(f.data)) {
		return 0, io.EOF
	}
	n := copy(b, f.data[off:])
	if n < len(b) {
		return n, io.EOF
	}
	return n, nil
}

func (f *vMFile) WriteAt(b []byte, off int64) (int, error) {
	f.enter()
	defer f.leave()
	f.writes++
	vLogCall(vCall{Op: "f.WriteAt", P1: f.name, N1: int64(len(b)), N2: off})
	vMutations++
	if f.closed > 0 {
		return 0, os.ErrClosed
	}
	if off < 0 {
		return 0, syscall.EINVAL
	}
	if off > 64 {
		return 0, syscall.EFBIG // the model file is small
	}
	if err := vOsErr(); err != nil {
		return 0, err
	}
	if len(b) == 0 {
		return 0, nil
	}
	end := int(off) + len(b)
	for len(f.data) < end {
		f.data = append(f.data, 0)
	}
	copy(f.data[off:], b)
	return len(b), nil
}

func (f *vMFile) Readdir(n int) ([]os.FileInfo, error) {
	vLogCall(vCall{Op: "f.Readdir", P1: f.name, N1: int64(n)})
	if f.dirPos >= len(f.ents) {
		return nil, io.EOF
	}
	k := len(f.ents) - f.dirPos
	if n > 0 && k > n {
		k = n
	}
	r := f.ents[f.dirPos : f.dirPos+k]
	f.dirPos += k
	return r, nil
}

func (f *vMFile) Truncate(n int64) error {
	return vMutate(vCall{Op: "f.Truncate", P1: f.name, N1: n})
}
func (f *vMFile) Chmod(m fs.FileMode) error {
	return vMutate(vCall{Op: "f.Chmod", P1: f.name, Mode: uint32(m)})
}
func (f *vMFile) Chown(uid, gid int) error {
	return vMutate(vCall{Op: "f.Chown", P1: f.name, N1: int64(uid), N2: int64(gid)})
}
func (f *vMFile) Close() error {
	vLogCall(vCall{Op: "f.Close", P1: f.name})
	f.lock()
	f.inAtClose += f.inCall
	f.closed++
	f.unlock()
	if vCloseMayFail && vAns(2) == 1 {
		return syscall.EIO
	}
	return nil
}

// ---- server construction without goroutines (L0) ----

// vCapture is a packetSender that records marshalled responses.
type vCapture struct {
	pkts [][]byte
	ids  []uint32
}

func (c *vCapture) sendPacket(m encoding.BinaryMarshaler) error {
	w := &vBuf{}
	if err := sendPacket(w, m); err != nil {
		return err
	}
	c.pkts = append(c.pkts, w.b)
	return nil
}

// vNewPktMgr builds a packetManager without starting its controller.
func vNewPktMgr(sender packetSender) *packetManager {
	return &packetManager{
		requests:  make(chan orderedPacket, SftpServerWorkerCount),
		responses: make(chan orderedPacket, SftpServerWorkerCount),
		fini:      make(chan struct{}),
		incoming:  make([]orderedPacket, 0, SftpServerWorkerCount),
		outgoing:  make([]orderedPacket, 0, SftpServerWorkerCount),
		sender:    sender,
		working:   &sync.WaitGroup{},
	}
}

func vNewServer(readOnly bool, workDir string) *Server {
	w := &vBuf{}
	sc := &serverConn{conn: conn{Reader: &vReader{}, WriteCloser: w}}
	return &Server{
		serverConn:  sc,
		debugStream: io.Discard,
		pktMgr:      vNewPktMgr(sc),
		openFiles:   make(map[string]file),
		maxTxPacket: defaultMaxTxPacket,
		readOnly:    readOnly,
		workDir:     workDir,
	}
}

// vWorkerStep drives one request through the real sftpServerWorker (and so
// handlePacket) and returns the single response it registered.
func vWorkerStep(svr *Server, pkt requestPacket) (responsePacket, uint32, error) {
	op := svr.pktMgr.newOrderedRequest(pkt)
	svr.pktMgr.incomingPacket(op)
	ch := make(chan orderedRequest, 1)
	ch <- op
	close(ch)
	err := svr.sftpServerWorker(ch)
	if err != nil {
		return nil, 0, err
	}
	vAssert(len(svr.pktMgr.responses) == 1, "exactly one response registered per request")
	r := <-svr.pktMgr.responses
	<-svr.pktMgr.requests
	or := r.(orderedResponse)
	vAssert(or.orderID() == op.orderID(), "response carries the request's order id")
	return or.responsePacket, op.orderID(), nil
}

// vRespBytes marshals a response the way the sender would.
func vRespBytes(r responsePacket) []byte {
	w := &vBuf{}
	err := sendPacket(w, r)
	vAssert(err == nil, "response marshals")
	return w.b
}

// vStatusCode returns (code, true) if b is a STATUS frame.
func vStatusCode(b []byte) (uint32, bool) {
	if len(b) < 13 || b[4] != sshFxpStatus {
		return 0, false
	}
	return uint32(b[9])<<24 | uint32(b[10])<<16 | uint32(b[11])<<8 | uint32(b[12]), true
}

func vRespID(b []byte) uint32 {
	if len(b) < 9 {
		return 0
	}
	return uint32(b[5])<<24 | uint32(b[6])<<16 | uint32(b[7])<<8 | uint32(b[8])
}
