//go:build verif

package sftp

import (
	"encoding"
	"io"
	"os"
	"time"
)

// ---- harness-side helpers shared by several properties ----

// vBuf records everything written to it.
type vBuf struct {
	b      []byte
	writes int
	closed bool
}

func (w *vBuf) Write(p []byte) (int, error) {
	w.b = append(w.b, p...)
	w.writes++
	return len(p), nil
}
func (w *vBuf) Close() error { w.closed = true; return nil }

// vReader serves a byte slice.
type vReader struct {
	data []byte
	pos  int
}

func (r *vReader) Read(p []byte) (int, error) {
	if r.pos >= len(r.data) {
		return 0, io.EOF
	}
	n := copy(p, r.data[r.pos:])
	r.pos += n
	return n, nil
}

// reference encoders written from draft-ietf-secsh-filexfer-02 section 3/4
func refU32(b []byte, v uint32) []byte {
	return append(b, byte(v>>24), byte(v>>16), byte(v>>8), byte(v))
}
func refU64(b []byte, v uint64) []byte {
	return refU32(refU32(b, uint32(v>>32)), uint32(v))
}
func refStr(b []byte, s string) []byte {
	b = refU32(b, uint32(len(s)))
	for i := 0; i < len(s); i++ {
		b = append(b, s[i])
	}
	return b
}
func refFrame(typ byte, body []byte) []byte {
	b := refU32(nil, uint32(len(body)+1))
	b = append(b, typ)
	return append(b, body...)
}

// vWire sends m with the real sendPacket and returns the bytes on the wire,
// after asserting the length prefix.
func vWire(m encoding.BinaryMarshaler) []byte {
	w := &vBuf{}
	err := sendPacket(w, m)
	vAssert(err == nil, "sendPacket succeeds")
	vAssert(len(w.b) >= 5, "frame has header")
	n := uint32(w.b[0])<<24 | uint32(w.b[1])<<16 | uint32(w.b[2])<<8 | uint32(w.b[3])
	vAssert(int(n) == len(w.b)-4, "length prefix equals number of bytes that follow")
	return w.b
}

// vUnwire reads one frame with the real recvPacket and decodes it with makePacket.
func vUnwire(b []byte) (requestPacket, error) {
	r := &vReader{data: b}
	typ, payload, err := recvPacket(r, nil, 0)
	vAssert(err == nil, "recvPacket accepts what sendPacket wrote")
	vAssert(r.pos == len(b), "recvPacket consumes the whole frame")
	return makePacket(rxPacket{typ, payload})
}


// model FileInfo values (three flavours: plain, with Uid/Gid, with Stat_t, with extended data)
type vFI struct {
	name  string
	size  int64
	mode  os.FileMode
	mtime time.Time
	sys   any
}

func (f *vFI) Name() string       { return f.name }
func (f *vFI) Size() int64        { return f.size }
func (f *vFI) Mode() os.FileMode  { return f.mode }
func (f *vFI) ModTime() time.Time { return f.mtime }
func (f *vFI) IsDir() bool        { return f.mode.IsDir() }
func (f *vFI) Sys() any           { return f.sys }

type vFIUidGid struct {
	vFI
	uid, gid uint32
}

func (f *vFIUidGid) Uid() uint32 { return f.uid }
func (f *vFIUidGid) Gid() uint32 { return f.gid }

type vFIExt struct {
	vFIUidGid
	ext []StatExtended
}

func (f *vFIExt) Extended() []StatExtended { return f.ext }


var vEpoch = time.Unix(5, 0)
