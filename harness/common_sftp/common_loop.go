//go:build verif

package sftp

// Loop-back peers: the client's request bytes are decoded by the real
// makePacket, executed by the real server worker step and the marshalled
// response is handed back to the client.

func vLoopDecode(typ byte, body []byte) requestPacket {
	pkt, err := makePacket(rxPacket{fxp(typ), body})
	vAssert(err == nil && pkt != nil, "server decodes what the client sent")
	return pkt
}

func vLoopReply(r responsePacket) (fxp, []byte) {
	b := vRespBytes(r)
	return fxp(b[4]), b[5:]
}

var vLoopRequests int // requests the peer has seen

func vServerPeer(svr *Server) func(byte, []byte) (fxp, []byte) {
	return func(typ byte, body []byte) (fxp, []byte) {
		vLoopRequests++
		r, _, err := vWorkerStep(svr, vLoopDecode(typ, body))
		vAssert(err == nil, "server worker continues")
		return vLoopReply(r)
	}
}

func vRSPeer(rs *RequestServer) func(byte, []byte) (fxp, []byte) {
	return func(typ byte, body []byte) (fxp, []byte) {
		vLoopRequests++
		r, err := vRSStep(rs, vLoopDecode(typ, body))
		vAssert(err == nil, "request server worker continues")
		return vLoopReply(r)
	}
}
