//go:build verif

package sftp

// Recording handlers for the request server: every handler call is logged and
// returns an arbitrary outcome of the documented type (the handler is user
// code; only its contract is assumed).

import (
	"context"
	"io"
	"os"
)

type vHCall struct {
	Op       string
	Method   string
	Filepath string
	Target   string
	Flags    uint32
	Attrs    []byte
	N        int64
	Off      int64
}

var (
	vHLog      []vHCall
	vHErrKinds = 2 // outcomes of vHErr (0 = always nil)
	vHObjs     []*vHObj
)

func vHReset() { vHLog, vHObjs = nil, nil }

func vHErr() error {
	if vHErrKinds == 0 {
		return nil
	}
	switch vAns(vHErrKinds) {
	case 0:
		return nil
	case 1:
		return os.ErrNotExist
	case 2:
		return ErrSSHFxPermissionDenied
	default:
		return io.ErrUnexpectedEOF
	}
}

func vHRec(op string, r *Request) {
	vHLog = append(vHLog, vHCall{Op: op, Method: r.Method, Filepath: r.Filepath, Target: r.Target, Flags: r.Flags, Attrs: r.Attrs})
}

// vHObj is what handlers hand out: reader, writer, read-writer and lister in
// one, with call counting.
type vHObj struct {
	kind     string
	data     []byte
	ents     []os.FileInfo
	closed   int
	terr     int // TransferError notifications
	reads    int
	writes   int
	lists    int
	ctx      context.Context
	noCloser bool
}

func (o *vHObj) ReadAt(b []byte, off int64) (int, error) {
	o.reads++
	vHLog = append(vHLog, vHCall{Op: "ReadAt", N: int64(len(b)), Off: off})
	if off < 0 || off >= int64(len(o.data)) {
		return 0, io.EOF
	}
	n := copy(b, o.data[off:])
	if n < len(b) {
		return n, io.EOF
	}
	return n, nil
}

func (o *vHObj) WriteAt(b []byte, off int64) (int, error) {
	o.writes++
	vHLog = append(vHLog, vHCall{Op: "WriteAt", N: int64(len(b)), Off: off})
	if off < 0 || off > 16 {
		return 0, ErrSSHFxFailure
	}
	if err := vHErr(); err != nil {
		return 0, err
	}
	if len(b) == 0 {
		return 0, nil
	}
	end := int(off) + len(b)
	for len(o.data) < end {
		o.data = append(o.data, 0)
	}
	copy(o.data[off:], b)
	return len(b), nil
}

func (o *vHObj) ListAt(fis []os.FileInfo, off int64) (int, error) {
	o.lists++
	vHLog = append(vHLog, vHCall{Op: "ListAt", N: int64(len(fis)), Off: off})
	if off >= int64(len(o.ents)) {
		return 0, io.EOF
	}
	n := copy(fis, o.ents[off:])
	if n < len(fis) {
		return n, io.EOF
	}
	return n, nil
}

// vCloseMayFail: Close of handler objects / model files may report an error
// (a failing flush or commit); the object counts as closed all the same.
var vCloseMayFail bool

func (o *vHObj) Close() error {
	o.closed++
	if vCloseMayFail && vAns(2) == 1 {
		return ErrSSHFxFailure
	}
	return nil
}

func (o *vHObj) TransferError(err error) { o.terr++ }

func vNewHObj(kind string, r *Request) *vHObj {
	o := &vHObj{kind: kind, data: []byte{1, 2, 3}, ents: []os.FileInfo{&vFI{name: "a", size: 1, mode: 0o644}}}
	if r != nil {
		o.ctx = r.Context()
	}
	vHObjs = append(vHObjs, o)
	return o
}

// base handler: the four mandatory interfaces
type vH struct{}

func (vH) Fileread(r *Request) (io.ReaderAt, error) {
	vHRec("Fileread", r)
	if err := vHErr(); err != nil {
		return nil, err
	}
	return vNewHObj("reader", r), nil
}

func (vH) Filewrite(r *Request) (io.WriterAt, error) {
	vHRec("Filewrite", r)
	if err := vHErr(); err != nil {
		return nil, err
	}
	return vNewHObj("writer", r), nil
}

func (vH) Filecmd(r *Request) error {
	vHRec("Filecmd", r)
	return vHErr()
}

func (vH) Filelist(r *Request) (ListerAt, error) {
	vHRec("Filelist", r)
	if err := vHErr(); err != nil {
		return nil, err
	}
	return vNewHObj("lister", r), nil
}

// optional interfaces, one type each (plus one with all of them)
type vHOpenFile struct{ vH }

func (vHOpenFile) OpenFile(r *Request) (WriterAtReaderAt, error) {
	vHRec("OpenFile", r)
	if err := vHErr(); err != nil {
		return nil, err
	}
	return vNewHObj("readwriter", r), nil
}

type vHPosixRename struct{ vH }

func (vHPosixRename) PosixRename(r *Request) error {
	vHRec("PosixRename", r)
	return vHErr()
}

type vHStatVFS struct{ vH }

func (vHStatVFS) StatVFS(r *Request) (*StatVFS, error) {
	vHRec("StatVFS", r)
	if err := vHErr(); err != nil {
		return nil, err
	}
	return &StatVFS{Bsize: 4096, Blocks: 7}, nil
}

type vHCmdAll struct {
	vHPosixRename
}

func (vHCmdAll) StatVFS(r *Request) (*StatVFS, error) { return vHStatVFS{}.StatVFS(r) }

type vHLstat struct{ vH }

func (vHLstat) Lstat(r *Request) (ListerAt, error) {
	vHRec("Lstat", r)
	if err := vHErr(); err != nil {
		return nil, err
	}
	return vNewHObj("lister", r), nil
}

type vHRealPath struct{ vH }

func (vHRealPath) RealPath(p string) (string, error) {
	vHLog = append(vHLog, vHCall{Op: "RealPath", Filepath: p})
	if err := vHErr(); err != nil {
		return "", err
	}
	return "/real", nil
}

type vHLegacyRealPath struct{ vH }

func (vHLegacyRealPath) RealPath(p string) string {
	vHLog = append(vHLog, vHCall{Op: "RealPath", Filepath: p})
	return "/real"
}

type vHReadlink struct{ vH }

func (vHReadlink) Readlink(p string) (string, error) {
	vHLog = append(vHLog, vHCall{Op: "Readlink", Filepath: p})
	if err := vHErr(); err != nil {
		return "", err
	}
	return "tgt", nil
}

type vHListAll struct {
	vHLstat
}

func (vHListAll) RealPath(p string) (string, error) { return vHRealPath{}.RealPath(p) }
func (vHListAll) Readlink(p string) (string, error) { return vHReadlink{}.Readlink(p) }

// vHandlers picks one of the handler flavours for every slot.
func vSymHandlers() Handlers {
	h := Handlers{FileGet: vH{}, FilePut: vH{}, FileCmd: vH{}, FileList: vH{}}
	if vAns(2) == 1 {
		h.FilePut = vHOpenFile{}
	}
	switch vAns(4) {
	case 1:
		h.FileCmd = vHPosixRename{}
	case 2:
		h.FileCmd = vHStatVFS{}
	case 3:
		h.FileCmd = vHCmdAll{}
	}
	switch vAns(6) {
	case 1:
		h.FileList = vHLstat{}
	case 2:
		h.FileList = vHRealPath{}
	case 3:
		h.FileList = vHLegacyRealPath{}
	case 4:
		h.FileList = vHReadlink{}
	case 5:
		h.FileList = vHListAll{}
	}
	return h
}

func vNewRequestServer(h Handlers, startDir string) *RequestServer {
	w := &vBuf{}
	sc := &serverConn{conn: conn{Reader: &vReader{}, WriteCloser: w}}
	return &RequestServer{
		Handlers:       h,
		serverConn:     sc,
		pktMgr:         vNewPktMgr(sc),
		startDirectory: startDir,
		maxTxPacket:    defaultMaxTxPacket,
		openRequests:   make(map[string]*Request),
	}
}

// vRSStep drives one request through the real packetWorker.
func vRSStep(rs *RequestServer, pkt requestPacket) (responsePacket, error) {
	op := rs.pktMgr.newOrderedRequest(pkt)
	rs.pktMgr.incomingPacket(op)
	ch := make(chan orderedRequest, 1)
	ch <- op
	close(ch)
	err := rs.packetWorker(context.Background(), ch)
	if err != nil {
		return nil, err
	}
	vAssert(len(rs.pktMgr.responses) == 1, "exactly one response registered per request")
	r := <-rs.pktMgr.responses
	<-rs.pktMgr.requests
	or := r.(orderedResponse)
	vAssert(or.orderID() == op.orderID(), "response carries the request's order id")
	return or.responsePacket, nil
}

// vOpenRequestOfKind installs handle "1" as if an earlier OPEN/OPENDIR had
// produced it: kind 0 reader, 1 writer, 2 read-writer, 3 lister.
func vOpenRequestOfKind(rs *RequestServer, kind int) (*Request, *vHObj) {
	r := &Request{Filepath: "/o", handle: "1"}
	r.ctx, r.cancelCtx = context.WithCancel(context.Background())
	o := vNewHObj("pre", r)
	switch kind {
	case 0:
		r.Method = "Get"
		r.readerAt = o
	case 1:
		r.Method = "Put"
		r.writerAt = o
	case 2:
		r.Method = "Open"
		r.writerAtReaderAt = o
	default:
		r.Method = "List"
		r.listerAt = o
	}
	rs.openRequests["1"] = r
	rs.handleCount = 1
	return r, o
}
