//go:build verif

package sftp

import "encoding"

// Page-lifetime lemmas of the server buffer allocator, shared by C18 (the
// allocator is invisible) and C15 (atomicity "with and without the allocator"
// rests on a page not being reused while a response still refers to it).

// release-after-send: maybeSendPackets gives the pages of an order id back
// only after the response with that order id has been handed to the sender
type vOrderSender struct {
	alloc   *allocator
	sentIDs []uint32
	early   bool
	pm      *packetManager
}

func (s *vOrderSender) sendPacket(m encoding.BinaryMarshaler) error {
	r := m.(orderedResponse)
	// at send time the pages of this order id must still be marked in use
	if !s.alloc.isRequestOrderIDUsed(r.orderID()) {
		s.early = true
	}
	s.sentIDs = append(s.sentIDs, r.orderID())
	return nil
}

func vAllocReleaseAfterSend() {
	a := newAllocator()
	snd := &vOrderSender{alloc: a}
	pm := vNewPktMgr(snd)
	pm.alloc = a
	k := 1 + vChoice(3)
	var reqs []orderedRequest
	for i := 0; i < k; i++ {
		vAssert(pm.getNextOrderID() == pm.packetCount+1, "next order id is the one the next request gets")
		next := pm.getNextOrderID()
		a.GetPage(next) // recvPacket's page
		r := pm.newOrderedRequest(&sshFxpReadPacket{ID: uint32(i), Handle: "1"})
		vAssert(r.orderID() == next, "the request gets the order id its receive page was tagged with")
		a.GetPage(r.orderID()) // getDataSlice's page
		reqs = append(reqs, r)
		pm.incoming = append(pm.incoming, r)
	}
	// responses complete in an arbitrary order
	done := make([]bool, k)
	for n := 0; n < k; n++ {
		c := vChoice(k - n)
		for j := 0; j < k; j++ {
			if !done[j] {
				if c == 0 {
					done[j] = true
					pm.outgoing = append(pm.outgoing, pm.newOrderedResponse(statusFromError(uint32(j), nil), reqs[j].orderID()))
					pm.outgoing.Sort()
					pm.maybeSendPackets()
					break
				}
				c--
			}
		}
		// pages of requests not yet answered are still in use
		for j := 0; j < k; j++ {
			sent := false
			for _, id := range snd.sentIDs {
				sent = sent || id == reqs[j].orderID()
			}
			vAssert(sent || a.isRequestOrderIDUsed(reqs[j].orderID()), "pages are not reused before the response that refers to them was written")
		}
	}
	vAssert(!snd.early, "pages released only after the matching response was sent")
	vAssert(len(snd.sentIDs) == k && a.countUsedPages() == 0, "once all responses are out no page is marked in use")
}


// tagging: whatever the client chose as request id, every page a READ takes is
// recorded under the request's order id - the only key maybeSendPackets releases
// (added after seeded change C18-b)
func vAllocPagesTagged() {
	vErrKinds = 0
	oid := uint32(1 + vChoice(3))
	var id uint32
	switch vChoice(4) {
	case 0:
		id = oid
	case 1:
		id = oid - 1 // the stock client: INIT took order id 1
	case 2:
		id = oid + 1 // the order id of the next request
	default:
		id = 0x80000001
	}
	pkt := &sshFxpReadPacket{ID: id, Handle: "1", Offset: uint64(vChoice(3)), Len: uint32(vChoice(5))}
	alloc := newAllocator()
	alloc.GetPage(oid) // the page recvPacket read the request into
	vEnvReset()
	vHReset()
	kind := vChoice(3)
	if kind < 2 {
		s := vNewRequestServer(Handlers{vH{}, vH{}, vH{}, vH{}}, "/")
		s.pktMgr.alloc = alloc
		vOpenRequestOfKind(s, kind*2) // reader or read-writer
		s.pktMgr.packetCount = oid - 1
		_, err := vRSStep(s, pkt)
		vAssert(err == nil, "worker continues")
	} else {
		s := vNewServer(false, "")
		s.pktMgr.alloc = alloc
		s.openFiles["1"] = &vMFile{name: "/o", data: []byte{1, 2, 3}}
		s.pktMgr.packetCount = oid - 1
		_, got, err := vWorkerStep(s, pkt)
		vAssert(err == nil && got == oid, "worker continues")
	}
	vAssert(alloc.countUsedPages() == len(alloc.used[oid]), "every page in use is recorded under the request's order id")
	vAssert(len(alloc.used[oid]) == 2, "one page for the request, one for the data")
	alloc.ReleasePages(oid)
	vAssert(alloc.countUsedPages() == 0, "releasing the order id frees everything the request took")
}

