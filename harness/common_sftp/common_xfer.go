//go:build verif

package sftp

// vXfer sets up a client looped back to one of the two servers serving a
// model file with the given content under handle "1".
type vXfer struct {
	c    *Client
	f    *File
	file *vMFile // os-backed server's file
	obj  *vHObj  // request server's reader/writer
}

func (x *vXfer) data() []byte {
	if x.file != nil {
		return x.file.data
	}
	return x.obj.data
}

func vNewXfer(content []byte, rsrv bool, withAlloc bool, p, conc int, seqReads, concWrites bool) *vXfer {
	vErrKinds, vHErrKinds = 0, 0
	vEnvReset()
	vHReset()
	x := &vXfer{}
	var alloc *allocator
	if withAlloc {
		alloc = newAllocator()
	}
	if rsrv {
		rs := vNewRequestServer(Handlers{vH{}, vHOpenFile{}, vH{}, vH{}}, "/")
		rs.pktMgr.alloc = alloc
		_, o := vOpenRequestOfKind(rs, 2)
		o.data = append([]byte{}, content...)
		x.obj = o
		vPeer = vRSPeer(rs)
	} else {
		svr := vNewServer(false, "")
		svr.pktMgr.alloc = alloc
		x.file = &vMFile{name: "/o", data: append([]byte{}, content...)}
		svr.openFiles["1"] = x.file
		vPeer = vServerPeer(svr)
	}
	x.c = vPeerClient()
	x.c.maxPacket, x.c.maxConcurrentRequests = p, conc
	x.c.disableConcurrentReads, x.c.useConcurrentWrites = seqReads, concWrites
	x.c.useFstat = true
	x.f = &File{c: x.c, path: "/o", handle: "1"}
	return x
}

func vMin(a, b int) int {
	if a < b {
		return a
	}
	return b
}

func vCheckWritten(x *vXfer, before []byte, b []byte, off int) {
	after := x.data()
	end := off + len(b)
	wantLen := len(before)
	if len(b) > 0 && end > wantLen {
		wantLen = end
	}
	vAssert(len(after) == wantLen, "file has the expected length")
	for i := 0; i < len(after) && i < wantLen; i++ {
		var want byte
		switch {
		case i >= off && i < end:
			want = b[i-off]
		case i < len(before):
			want = before[i]
		}
		vAssert(after[i] == want, "file content is the old content with the written bytes at the intended offset")
	}
}

// ReadFrom with the reader kinds that select the sequential path
type vPlainReader struct{ r vReader }

func (p *vPlainReader) Read(b []byte) (int, error) { return p.r.Read(b) }

