//go:build verif

package sftp

// path string bound
func vPB() int {
	if vThorough() {
		return 2
	}
	return 1
}

// vSymRequest returns a request packet of the k-th kind with symbolic fields.
// Handle-carrying requests name either an open handle ("1") or a bogus one.
func vSymRequest(k int) requestPacket {
	id := vNondetU32()
	h := "1"
	if vNondetBool() {
		h = "9"
	}
	switch k {
	case 0:
		return &sshFxInitPacket{Version: vNondetU32()}
	case 1:
		return &sshFxpLstatPacket{ID: id, Path: vNondetStringC(vPB())}
	case 2:
		return &sshFxpOpenPacket{ID: id, Path: vNondetStringC(vPB()), Pflags: vNondetU32(), Flags: vNondetU32(), Attrs: vNondetBytesC(4)}
	case 3:
		return &sshFxpClosePacket{ID: id, Handle: h}
	case 4:
		return &sshFxpReadPacket{ID: id, Handle: h, Offset: vNondetU64(), Len: uint32(vNondetU8() & 31)}
	case 5:
		d := vNondetBytesC(3)
		return &sshFxpWritePacket{ID: id, Handle: h, Offset: uint64(vNondetU8() & 3), Length: uint32(len(d)), Data: d}
	case 6:
		return &sshFxpFstatPacket{ID: id, Handle: h}
	case 7:
		return &sshFxpSetstatPacket{ID: id, Path: vNondetStringC(vPB()), Flags: vNondetU32(), Attrs: vNondetArray(24)}
	case 8:
		return &sshFxpFsetstatPacket{ID: id, Handle: h, Flags: vNondetU32(), Attrs: vNondetArray(24)}
	case 9:
		return &sshFxpOpendirPacket{ID: id, Path: vNondetStringC(vPB())}
	case 10:
		return &sshFxpReaddirPacket{ID: id, Handle: h}
	case 11:
		return &sshFxpRemovePacket{ID: id, Filename: vNondetStringC(vPB())}
	case 12:
		return &sshFxpMkdirPacket{ID: id, Path: vNondetStringC(vPB()), Flags: vNondetU32()}
	case 13:
		return &sshFxpRmdirPacket{ID: id, Path: vNondetStringC(vPB())}
	case 14:
		return &sshFxpRealpathPacket{ID: id, Path: vNondetStringC(vPB())}
	case 15:
		return &sshFxpStatPacket{ID: id, Path: vNondetStringC(vPB())}
	case 16:
		return &sshFxpRenamePacket{ID: id, Oldpath: vNondetStringC(vPB()), Newpath: vNondetStringC(vPB())}
	case 17:
		return &sshFxpReadlinkPacket{ID: id, Path: vNondetStringC(vPB())}
	case 18:
		return &sshFxpSymlinkPacket{ID: id, Targetpath: vNondetStringC(vPB()), Linkpath: vNondetStringC(vPB())}
	case 19:
		return &sshFxpExtendedPacket{ID: id, ExtendedRequest: "statvfs@openssh.com", SpecificPacket: &sshFxpExtendedPacketStatVFS{ID: id, Path: vNondetStringC(vPB())}}
	case 20:
		return &sshFxpExtendedPacket{ID: id, ExtendedRequest: "posix-rename@openssh.com", SpecificPacket: &sshFxpExtendedPacketPosixRename{ID: id, Oldpath: vNondetStringC(vPB()), Newpath: vNondetStringC(vPB())}}
	case 21:
		return &sshFxpExtendedPacket{ID: id, ExtendedRequest: "hardlink@openssh.com", SpecificPacket: &sshFxpExtendedPacketHardlink{ID: id, Oldpath: vNondetStringC(vPB()), Newpath: vNondetStringC(vPB())}}
	default:
		return &sshFxpExtendedPacket{ID: id, ExtendedRequest: vNondetStringC(vPB())}
	}
}

const vNKinds = 23

// vTwin runs pkt through a read-write server and then, with the same
// environment answers, through a read-only server; both start from a table
// holding one file opened earlier (handle "1").
func vKindName(pkt requestPacket) string {
	switch p := pkt.(type) {
	case *sshFxInitPacket:
		return "INIT"
	case *sshFxpLstatPacket:
		return "LSTAT"
	case *sshFxpOpenPacket:
		return "OPEN"
	case *sshFxpClosePacket:
		return "CLOSE"
	case *sshFxpReadPacket:
		return "READ"
	case *sshFxpWritePacket:
		return "WRITE"
	case *sshFxpFstatPacket:
		return "FSTAT"
	case *sshFxpSetstatPacket:
		return "SETSTAT"
	case *sshFxpFsetstatPacket:
		return "FSETSTAT"
	case *sshFxpOpendirPacket:
		return "OPENDIR"
	case *sshFxpReaddirPacket:
		return "READDIR"
	case *sshFxpRemovePacket:
		return "REMOVE"
	case *sshFxpMkdirPacket:
		return "MKDIR"
	case *sshFxpRmdirPacket:
		return "RMDIR"
	case *sshFxpRealpathPacket:
		return "REALPATH"
	case *sshFxpStatPacket:
		return "STAT"
	case *sshFxpRenamePacket:
		return "RENAME"
	case *sshFxpReadlinkPacket:
		return "READLINK"
	case *sshFxpSymlinkPacket:
		return "SYMLINK"
	case *sshFxpExtendedPacket:
		switch p.SpecificPacket.(type) {
		case *sshFxpExtendedPacketStatVFS:
			return "statvfs@"
		case *sshFxpExtendedPacketPosixRename:
			return "posix-rename@"
		case *sshFxpExtendedPacketHardlink:
			return "hardlink@"
		}
		return "EXTENDED(unknown)"
	}
	return "?"
}

