//go:build verif

package sftp

// A client whose peer is a harness function. Under the engine the transport
// is cut out: sendPacket/dispatchRequest marshal the request with the real
// codec and hand (type, body) to vPeer, whose reply is returned / delivered.
// Natively the same vPeer sits behind a real connection (NewClientPipe over
// io.Pipe, a goroutine reading request frames), so the identical harness
// replays natively.

import (
	"context"
	"io"
)

//verif:redirect (*github.com/pkg/sftp.clientConn).sendPacket vPeerSendPacket
//verif:redirect (*github.com/pkg/sftp.clientConn).dispatchRequest vPeerDispatch

// vPeer answers a request: body starts with the request id; the returned data
// must start with the id the reply is meant for.
var vPeer func(typ byte, body []byte) (fxp, []byte)

func vPeerFrame(p idmarshaler) (byte, []byte) {
	hdr, payload, err := marshalPacket(p)
	if err != nil {
		panic(err)
	}
	frame := append(append([]byte{}, hdr...), payload...)
	return frame[4], frame[5:]
}

func vPeerSendPacket(c *clientConn, ctx context.Context, ch chan result, p idmarshaler) (fxp, []byte, error) {
	typ, body := vPeerFrame(p)
	rt, data := vPeer(typ, body)
	return rt, data, nil
}

func vPeerDispatch(c *clientConn, ch chan<- result, p idmarshaler) {
	typ, body := vPeerFrame(p)
	rt, data := vPeer(typ, body)
	ch <- result{typ: rt, data: data}
}

func vNativePeerClient() *Client {
	c2sR, c2sW := io.Pipe()
	s2cR, s2cW := io.Pipe()
	go func() {
		defer s2cW.Close()
		first := true
		for {
			typ, payload, err := recvPacket(c2sR, nil, 0)
			if err != nil {
				return
			}
			if first {
				first = false
				s2cW.Write([]byte{0, 0, 0, 5, sshFxpVersion, 0, 0, 0, 3})
				continue
			}
			rt, data := vPeer(byte(typ), payload)
			n := len(data) + 1
			frame := append([]byte{byte(n >> 24), byte(n >> 16), byte(n >> 8), byte(n), byte(rt)}, data...)
			if _, err := s2cW.Write(frame); err != nil {
				return
			}
		}
	}()
	c, err := NewClientPipe(s2cR, c2sW)
	if err != nil {
		panic(err)
	}
	return c
}

// vPeerClient returns a client talking to vPeer (set it first).
func vPeerClient() *Client {
	var c *Client
	if vSymbolic() {
		c = &Client{clientConn: clientConn{inflight: make(map[uint32]chan<- result), closed: make(chan struct{})}}
		c.maxPacket, c.maxConcurrentRequests = 1<<15, 64
	} else {
		c = vNativePeerClient()
	}
	c.ext = map[string]string{}
	return c
}

func vPeerDone(c *Client) {
	if !vSymbolic() {
		c.Close()
	}
}

// helpers for peers
func vBE32(b []byte) uint32 {
	return uint32(b[0])<<24 | uint32(b[1])<<16 | uint32(b[2])<<8 | uint32(b[3])
}
func vBE64(b []byte) uint64 { return uint64(vBE32(b))<<32 | uint64(vBE32(b[4:])) }

// vBodyStr returns the string at the start of b and the rest.
func vBodyStr(b []byte) (string, []byte) {
	n := vBE32(b)
	return string(b[4 : 4+n]), b[4+n:]
}

func vStatusReply(id []byte, code uint32) (fxp, []byte) {
	return sshFxpStatus, append(append([]byte{}, id[:4]...), byte(code>>24), byte(code>>16), byte(code>>8), byte(code), 0, 0, 0, 0, 0, 0, 0, 0)
}

// vPipeReader is the client end of a server->client byte stream fed by a channel
type vPipeReader struct {
	ch  chan []byte
	cur []byte
}

func (r *vPipeReader) Read(p []byte) (int, error) {
	if len(r.cur) == 0 {
		b, ok := <-r.ch
		if !ok {
			return 0, io.EOF
		}
		r.cur = b
	}
	n := copy(p, r.cur)
	r.cur = r.cur[n:]
	return n, nil
}

