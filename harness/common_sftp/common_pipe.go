//go:build verif

package sftp

import "sync"

// vPipeline runs the real packet manager (controller goroutine), the real
// workerChan dispatcher and real sftpServerWorker goroutines (pool of 2 rw
// workers + 1 command worker) on the given requests, the way Serve does after
// its receive loop, and returns the marshalled responses in the order sent.
func vPipeline(svr *Server, reqs []requestPacket) [][]byte {
	return vPipelineOpt(svr, reqs, true)
}

// withController=false leaves out the controller goroutine (the responses
// stay queued in the manager's buffered channel, in completion order).
func vPipelineOpt(svr *Server, reqs []requestPacket, withController bool) [][]byte {
	cap := &vCapture{}
	if withController {
		svr.pktMgr = newPktMgr(cap)
	} else {
		svr.pktMgr = vNewPktMgr(cap)
	}
	var wg sync.WaitGroup
	runWorker := func(ch chan orderedRequest) {
		wg.Add(1)
		go func() {
			defer wg.Done()
			if err := svr.sftpServerWorker(ch); err != nil {
				vAssert(false, "worker returned an error")
			}
		}()
	}
	pktChan := svr.pktMgr.workerChan(runWorker)
	for _, r := range reqs {
		pktChan <- svr.pktMgr.newOrderedRequest(r)
	}
	close(pktChan)
	wg.Wait()
	vQuiesce() // let the controller goroutine finish what it has queued
	if !withController {
		// drain in completion order
		for len(svr.pktMgr.responses) > 0 {
			r := <-svr.pktMgr.responses
			cap.sendPacket(r.(orderedResponse).responsePacket)
		}
	}
	return cap.pkts
}


// request ids are the client's choice: arbitrary, pairwise distinct (added
// after seeded change C14-d, which keyed on one particular id)
func vIDs(n int) []uint32 {
	ids := make([]uint32, n)
	for i := range ids {
		ids[i] = vNondetU32()
		for j := 0; j < i; j++ {
			vAssume(ids[i] != ids[j])
		}
	}
	return ids
}

