//go:build verif

package sftp

import (
	"context"
	"sync"
)

// vPipeline runs the real packet manager (controller goroutine), the real
// workerChan dispatcher and real sftpServerWorker goroutines (pool of 2 rw
// workers + 1 command worker) on the given requests, the way Serve does after
// its receive loop, and returns the marshalled responses in the order sent.
func vPipeline(svr *Server, reqs []requestPacket) [][]byte {
	return vPipelineOpt(svr, reqs, true)
}

// withController=false leaves out the controller goroutine (the responses
// stay queued in the manager's buffered channel, in completion order).
func vPipelineOpt(svr *Server, reqs []requestPacket, withController bool) [][]byte {
	cap := &vCapture{}
	if withController {
		svr.pktMgr = newPktMgr(cap)
	} else {
		svr.pktMgr = vNewPktMgr(cap)
	}
	var wg sync.WaitGroup
	runWorker := func(ch chan orderedRequest) {
		wg.Add(1)
		go func() {
			defer wg.Done()
			if err := svr.sftpServerWorker(ch); err != nil {
				vAssert(false, "worker returned an error")
			}
		}()
	}
	pktChan := svr.pktMgr.workerChan(runWorker)
	for _, r := range reqs {
		pktChan <- svr.pktMgr.newOrderedRequest(r)
	}
	close(pktChan)
	wg.Wait()
	vQuiesce() // let the controller goroutine finish what it has queued
	if !withController {
		// drain in completion order
		for len(svr.pktMgr.responses) > 0 {
			r := <-svr.pktMgr.responses
			cap.sendPacket(r.(orderedResponse).responsePacket)
		}
	}
	return cap.pkts
}


// request ids are the client's choice: arbitrary, pairwise distinct (added
// after seeded change C14-d, which keyed on one particular id)
func vIDs(n int) []uint32 {
	ids := make([]uint32, n)
	for i := range ids {
		ids[i] = vNondetU32()
		for j := 0; j < i; j++ {
			vAssume(ids[i] != ids[j])
		}
	}
	return ids
}


// vRSPipeline: the same for the request server - the real dispatcher and real
// packetWorker goroutines (2 + 1), no controller; responses in completion order.
func vRSPipeline(rs *RequestServer, reqs []requestPacket) [][]byte {
	cap := &vCapture{}
	rs.pktMgr = vNewPktMgr(cap)
	var wg sync.WaitGroup
	runWorker := func(ch chan orderedRequest) {
		wg.Add(1)
		go func() {
			defer wg.Done()
			if err := rs.packetWorker(context.Background(), ch); err != nil {
				vAssert(false, "worker returned an error")
			}
		}()
	}
	pktChan := rs.pktMgr.workerChan(runWorker)
	for _, r := range reqs {
		pktChan <- rs.pktMgr.newOrderedRequest(r)
	}
	close(pktChan)
	wg.Wait()
	vQuiesce()
	for len(rs.pktMgr.responses) > 0 {
		r := <-rs.pktMgr.responses
		cap.sendPacket(r.(orderedResponse).responsePacket)
	}
	return cap.pkts
}

// vHFile: a handler object (reader, writer, closer) backed by a model file, so
// that calls in flight at Close are counted the same way
type vHFile struct{ f *vMFile }

func (h vHFile) ReadAt(b []byte, off int64) (int, error)  { return h.f.ReadAt(b, off) }
func (h vHFile) WriteAt(b []byte, off int64) (int, error) { return h.f.WriteAt(b, off) }
func (h vHFile) Close() error                             { return h.f.Close() }
