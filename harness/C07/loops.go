//go:build verif

package sftp

import (
	"context"
	"errors"
	"io"
	"os"
	"runtime"
	"time"
)

func vN7() int {
	if vThorough() {
		return 26
	}
	return 18
}

var vDispatched chan orderedRequest

// the receive loop runs alone: workerChan hands out a large buffered channel,
// so everything the loop dispatches can be inspected
func vStubWorkerChan(s *packetManager, runWorker func(chan orderedRequest)) chan orderedRequest {
	vDispatched = make(chan orderedRequest, 16)
	return vDispatched
}

// reference: the well-formed prefix of the stream (a frame is malformed iff
// makePacket rejects it with anything but "unknown extended packet")
func vWellFormedPrefix(data []byte) (n int, clean bool) {
	r := &vReader{data: data}
	for {
		typ, body, err := recvPacket(r, nil, 0)
		if err != nil {
			return n, false
		}
		_, err = makePacket(rxPacket{typ, body})
		if err != nil && !errors.Is(err, errUnknownExtendedPacket) {
			return n, false
		}
		n++
	}
}

// natively nothing can be stubbed: the stream is fed to a real read-only
// Server (scratch working directory) and the responses are counted: a
// dispatched malformed frame shows up as a response too many, or crashes the
// process (the replay runs in a child process).
func vNativeServe(data []byte, want int, label string) {
	dir, err := os.MkdirTemp("", "verif-c07-")
	if err != nil {
		panic(err)
	}
	defer os.RemoveAll(dir)
	w := &vBuf{}
	svr, err := NewServer(struct {
		io.Reader
		io.WriteCloser
	}{&vReader{data: data}, w}, ReadOnly(), WithServerWorkingDirectory(dir))
	if err != nil {
		panic(err)
	}
	// a file opened earlier in the session: must be closed when Serve returns
	of, err := os.CreateTemp(dir, "open")
	if err != nil {
		panic(err)
	}
	svr.openFiles["1"] = of
	svr.handleCount = 1
	g0 := runtime.NumGoroutine()
	done := make(chan struct{})
	go func() { svr.Serve(); close(done) }()
	select {
	case <-done:
	case <-time.After(5 * time.Second):
		vAssert(false, label+": Serve returns")
	}
	time.Sleep(20 * time.Millisecond) // responses are sent by the controller goroutine
	n := 0
	b := w.b
	for len(b) >= 4 {
		l := int(vBE32(b))
		if 4+l > len(b) {
			break
		}
		b = b[4+l:]
		n++
	}
	vAssert(n <= want, label+": a malformed frame (or anything after it) is never dispatched")
	vAssert(of.Close() != nil, "open file swept exactly once")
	for i := 0; i < 50 && runtime.NumGoroutine() > g0; i++ {
		time.Sleep(10 * time.Millisecond)
	}
	vAssert(runtime.NumGoroutine() <= g0, label+": no goroutine is left behind")
}

//verif:redirect (*github.com/pkg/sftp.packetManager).workerChan vStubWorkerChan
func vh_C07_server_loop() {
	data := vNondetBytesC(vN7())
	want, _ := vWellFormedPrefix(data)
	if !vSymbolic() {
		vNativeServe(data, want, "Server")
		return
	}
	vConsumed(len(data))
	svr := vNewServer(false, "")
	if vNondetBool() {
		// allocator on: frames are received into recycled, dirty 256 KiB pages
		alloc := newAllocator()
		alloc.available = append(alloc.available, vHavocBytes(maxMsgLength))
		svr.pktMgr.alloc, svr.serverConn.conn.alloc = alloc, alloc
	}
	svr.serverConn.conn.Reader = &vReader{data: data}
	f := &vMFile{name: "/o"}
	svr.openFiles["1"] = f
	svr.Serve()
	got := len(vDispatched)
	vAssert(got <= want, "Server: a malformed frame (or anything after it) is never dispatched")
	vAssert(got == want, "Server: every well-formed request before it is dispatched")
	for i := 0; i < got; i++ {
		p := <-vDispatched
		vAssert(p.requestPacket != nil, "Server: dispatched packets are decoded packets")
	}
	vAssert(f.closed == 1, "open file swept exactly once")
	vAssert(svr.serverConn.conn.WriteCloser.(*vBuf).closed || want == got, "connection closed after a malformed frame")
}

func vh_C07_reqserver_loop() {
	data := vNondetBytesC(vN7())
	want, _ := vWellFormedPrefix(data)
	vConsumed(len(data))
	rs := vNewRequestServer(Handlers{vH{}, vH{}, vH{}, vH{}}, "/")
	if vNondetBool() {
		alloc := newAllocator()
		alloc.available = append(alloc.available, vHavocBytes(maxMsgLength))
		rs.pktMgr.alloc, rs.serverConn.conn.alloc = alloc, alloc
	}
	rs.serverConn.conn.Reader = &vReader{data: data}
	ch := make(chan orderedRequest, 16)
	err := rs.serveLoop(ch)
	vAssert(err != nil, "serveLoop ends with the reason")
	got := 0
	for p := range ch { // serveLoop closed the channel
		vAssert(p.requestPacket != nil, "RequestServer: dispatched packets are decoded packets")
		got++
	}
	vAssert(got <= want, "RequestServer: a malformed frame (or anything after it) is never dispatched")
	vAssert(got == want, "RequestServer: every well-formed request before it is dispatched")
	vEmit("want", want)
}

// ---- structured mutations of valid frames: one length field replaced by an
// arbitrary 32-bit value, the stream optionally cut short; allocator on/off ----

func vMutatedStream() []byte {
	id := vNondetU32()
	var m interface{ MarshalBinary() ([]byte, error) }
	var fields []int // offsets of the 32-bit length fields in the frame
	switch vChoice(4) {
	case 0:
		m = &sshFxpWritePacket{ID: id, Handle: "1", Offset: 0, Length: 2, Data: []byte{7, 8}}
		fields = []int{0, 9, 22}
	case 1:
		m = &sshFxpOpenPacket{ID: id, Path: "p", Pflags: 1, Flags: 0}
		fields = []int{0, 9}
	case 2:
		m = &sshFxpRenamePacket{ID: id, Oldpath: "a", Newpath: "b"}
		fields = []int{0, 9, 14}
	case 3:
		m = &sshFxpSetstatPacket{ID: id, Path: "p", Flags: 0}
		fields = []int{0, 9}
	}
	b, err := m.MarshalBinary()
	vAssert(err == nil, "marshals")
	n := len(b) - 4
	b[0], b[1], b[2], b[3] = byte(n>>24), byte(n>>16), byte(n>>8), byte(n)
	pos := fields[vChoice(len(fields))]
	v := vNondetU32()
	b[pos], b[pos+1], b[pos+2], b[pos+3] = byte(v>>24), byte(v>>16), byte(v>>8), byte(v)
	switch vChoice(3) {
	case 1:
		b = b[:len(b)-1]
	case 2:
		b = b[:len(b)-5]
	}
	return b
}

//verif:redirect (*github.com/pkg/sftp.packetManager).workerChan vStubWorkerChan
func vh_C07_server_mutated() {
	data := vMutatedStream()
	want, _ := vWellFormedPrefix(data)
	if !vSymbolic() {
		vNativeServe(data, want, "Server")
		return
	}
	vConsumed(len(data))
	svr := vNewServer(false, "")
	if vNondetBool() {
		alloc := newAllocator()
		alloc.available = append(alloc.available, vHavocBytes(maxMsgLength))
		svr.pktMgr.alloc, svr.serverConn.conn.alloc = alloc, alloc
	}
	svr.serverConn.conn.Reader = &vReader{data: data}
	svr.Serve()
	got := len(vDispatched)
	vAssert(got <= want, "Server: a malformed frame (or anything after it) is never dispatched")
	vAssert(got == want, "Server: every well-formed request before it is dispatched")
	for i := 0; i < got; i++ {
		p := <-vDispatched
		if w, ok := p.requestPacket.(*sshFxpWritePacket); ok {
			vAssert(int(w.Length) == len(w.Data) && len(w.Data) <= 2 && vBytesEq(w.Data, []byte{7, 8}[:vMin(len(w.Data), 2)]), "a dispatched WRITE carries only bytes that were received")
		}
	}
}

func vh_C07_reqserver_mutated() {
	data := vMutatedStream()
	want, _ := vWellFormedPrefix(data)
	vConsumed(len(data))
	rs := vNewRequestServer(Handlers{vH{}, vH{}, vH{}, vH{}}, "/")
	if vNondetBool() {
		alloc := newAllocator()
		alloc.available = append(alloc.available, vHavocBytes(maxMsgLength))
		rs.pktMgr.alloc, rs.serverConn.conn.alloc = alloc, alloc
	}
	rs.serverConn.conn.Reader = &vReader{data: data}
	ch := make(chan orderedRequest, 16)
	rs.serveLoop(ch)
	got := 0
	for p := range ch {
		if w, ok := p.requestPacket.(*sshFxpWritePacket); ok {
			vAssert(int(w.Length) == len(w.Data) && len(w.Data) <= 2 && vBytesEq(w.Data, []byte{7, 8}[:vMin(len(w.Data), 2)]), "a dispatched WRITE carries only bytes that were received")
		}
		got++
	}
	vAssert(got <= want, "RequestServer: a malformed frame (or anything after it) is never dispatched")
	vAssert(got == want, "RequestServer: every well-formed request before it is dispatched")
}

// ---- loop + worker: whatever the loop dispatches, the worker answers without
// panicking (unknown types, unknown extended requests, bogus handles, ...);
// the workers run after the loop, on the channel it filled (added after seeded
// change C07-c)

func vN7w() int {
	if vThorough() {
		return 20 // (22 did not finish within 40 minutes)
	}
	return 18
}

func vh_C07_reqserver_loop_worker() {
	data := vNondetBytesC(vN7w())
	vConsumed(len(data))
	rs := vNewRequestServer(Handlers{vH{}, vH{}, vH{}, vH{}}, "/")
	rs.serverConn.conn.Reader = &vReader{data: data}
	ch := make(chan orderedRequest, 16)
	rs.serveLoop(ch)
	got := len(ch)
	rs.pktMgr.requests = make(chan orderedPacket, 16)
	rs.pktMgr.responses = make(chan orderedPacket, 16)
	pending := make([]orderedRequest, 0, got)
	for p := range ch {
		pending = append(pending, p)
	}
	ch2 := make(chan orderedRequest, 16)
	for _, p := range pending {
		rs.pktMgr.incomingPacket(p)
		ch2 <- p
	}
	close(ch2)
	err := rs.packetWorker(context.Background(), ch2)
	vAssert(err == nil, "RequestServer: the worker survives every dispatched packet")
	vAssert(len(rs.pktMgr.responses) == got, "RequestServer: one response per dispatched packet")
	vEmit("got", got)
}

//verif:redirect (*github.com/pkg/sftp.packetManager).workerChan vStubWorkerChan
func vh_C07_server_loop_worker() {
	data := vNondetBytesC(vN7w())
	want, _ := vWellFormedPrefix(data)
	if !vSymbolic() {
		vNativeServe(data, want, "Server")
		return
	}
	vConsumed(len(data))
	svr := vNewServer(false, "")
	svr.serverConn.conn.Reader = &vReader{data: data}
	svr.openFiles["1"] = &vMFile{name: "/o"}
	svr.pktMgr.requests = make(chan orderedPacket, 16)
	svr.pktMgr.responses = make(chan orderedPacket, 16)
	// Serve: the loop fills vDispatched and closes it; run the worker on it afterwards
	svr.Serve()
	got := len(vDispatched)
	pending := make([]orderedRequest, 0, got)
	for p := range vDispatched {
		pending = append(pending, p)
	}
	ch2 := make(chan orderedRequest, 16)
	for _, p := range pending {
		svr.pktMgr.incomingPacket(p)
		ch2 <- p
	}
	close(ch2)
	err := svr.sftpServerWorker(ch2)
	vAssert(err == nil, "Server: the worker survives every dispatched packet")
	vAssert(len(svr.pktMgr.responses) == got, "Server: one response per dispatched packet")
}

// ---- type byte replaced: a valid handle-carrying frame whose type byte is
// arbitrary either is refused by the decoder or is the well-formed request of
// the new type - and is then served as that: the handler object behind the
// handle is only ever used in the way its kind and the request's type allow
// (added after seeded change C07-d)

func vTypeMutatedStream() []byte {
	id := vNondetU32()
	var m interface{ MarshalBinary() ([]byte, error) }
	switch vChoice(4) {
	case 0:
		m = &sshFxpWritePacket{ID: id, Handle: "1", Offset: 1, Length: 2, Data: []byte{7, 8}}
	case 1:
		m = &sshFxpReadPacket{ID: id, Handle: "1", Offset: 1, Len: 2}
	case 2:
		m = &sshFxpReaddirPacket{ID: id, Handle: "1"}
	case 3:
		m = &sshFxpFstatPacket{ID: id, Handle: "1"}
	}
	b, err := m.MarshalBinary()
	vAssert(err == nil, "marshals")
	n := len(b) - 4
	b[0], b[1], b[2], b[3] = byte(n>>24), byte(n>>16), byte(n>>8), byte(n)
	b[4] = vNondetU8()
	return b
}

func vh_C07_reqserver_type_mutated() {
	vHErrKinds = 0
	vHReset()
	data := vTypeMutatedStream()
	want, _ := vWellFormedPrefix(data)
	vConsumed(len(data))
	rs := vNewRequestServer(Handlers{vH{}, vH{}, vH{}, vH{}}, "/")
	kind := vChoice(4)
	_, o := vOpenRequestOfKind(rs, kind)
	rs.serverConn.conn.Reader = &vReader{data: data}
	ch := make(chan orderedRequest, 16)
	rs.serveLoop(ch)
	got := len(ch)
	vAssert(got == want, "exactly the well-formed prefix is dispatched")
	rs.pktMgr.requests = make(chan orderedPacket, 16)
	rs.pktMgr.responses = make(chan orderedPacket, 16)
	var pkts []orderedRequest
	for p := range ch {
		pkts = append(pkts, p)
	}
	ch2 := make(chan orderedRequest, 16)
	for _, p := range pkts {
		rs.pktMgr.incomingPacket(p)
		ch2 <- p
	}
	close(ch2)
	err := rs.packetWorker(context.Background(), ch2)
	vAssert(err == nil, "the worker survives")
	isRead, isWrite, isDir := false, false, false
	for _, p := range pkts {
		switch p.requestPacket.(type) {
		case *sshFxpReadPacket:
			isRead = true
		case *sshFxpWritePacket:
			isWrite = true
		case *sshFxpReaddirPacket:
			isDir = true
		}
	}
	vAssert(o.reads == 0 || (isRead && (kind == 0 || kind == 2)), "the object is read only by a READ on a readable handle")
	vAssert(o.writes == 0 || (isWrite && (kind == 1 || kind == 2)), "the object is written only by a WRITE on a writable handle")
	vAssert(o.lists == 0 || (isDir && kind == 3), "the object is listed only by a READDIR on a directory handle")
	vAssert(len(rs.pktMgr.responses) == got, "one response per dispatched packet")
	if got == 1 {
		r := (<-rs.pktMgr.responses).(orderedResponse)
		b := vRespBytes(r.responsePacket)
		t := b[4]
		switch {
		case isRead:
			vAssert(t == sshFxpData || t == sshFxpStatus, "READ is answered with DATA or STATUS")
			if kind == 1 || kind == 3 {
				c, _ := vStatusCode(b)
				vAssert(t == sshFxpStatus && c != sshFxOk && c != sshFxEOF, "READ on a handle that cannot be read fails")
			}
		case isWrite:
			vAssert(t == sshFxpStatus, "WRITE is answered with STATUS")
			if kind == 0 || kind == 3 {
				c, _ := vStatusCode(b)
				vAssert(c != sshFxOk, "WRITE on a handle that cannot be written fails")
			}
		case isDir:
			vAssert(t == sshFxpName || t == sshFxpStatus, "READDIR is answered with NAME or STATUS")
		}
	}
	vEmit("got", got)
}

// ---- lazily parsed attribute blocks: OPEN, SETSTAT and FSETSTAT carry their
// attributes undecoded past makePacket; a block that is too short for the flags
// it announces is a malformed packet all the same and must not be acted upon:
// no os call, a failure status (added after seeded change C07-f)
func vh_C07_server_short_attrs() {
	vErrKinds = 0
	vEnvReset()
	flags := vNondetU32()
	attrs := vNondetBytesC(9)
	id := vNondetU32()
	_, _, derr := unmarshalFileStat(flags, attrs)
	svr := vNewServer(false, "")
	svr.openFiles["1"] = &vMFile{name: "/o"}
	svr.handleCount = 1
	var pkt requestPacket
	k := vChoice(3)
	switch k {
	case 0:
		pkt = &sshFxpOpenPacket{ID: id, Path: "/f", Pflags: sshFxfWrite | sshFxfCreat, Flags: flags, Attrs: attrs}
	case 1:
		pkt = &sshFxpSetstatPacket{ID: id, Path: "/f", Flags: flags, Attrs: attrs}
	default:
		pkt = &sshFxpFsetstatPacket{ID: id, Handle: "1", Flags: flags, Attrs: attrs}
	}
	r, _, err := vWorkerStep(svr, pkt)
	vAssert(err == nil, "worker continues")
	b := vRespBytes(r)
	code, isStatus := vStatusCode(b)
	needs := flags&(sshFileXferAttrSize|sshFileXferAttrUIDGID|sshFileXferAttrPermissions|sshFileXferAttrACmodTime) != 0
	if k == 0 {
		needs = flags&sshFileXferAttrPermissions != 0 // OPEN looks at the block only for the permissions
	}
	if derr != nil && needs {
		vAssert(vMutations == 0 && vWriteOpen == 0 && len(vEnvLog) == 0, "a request whose attribute block is too short for its flags is not acted upon")
		vAssert(isStatus && code != sshFxOk, "and is answered with a failure status")
	}
	vEmit("k", k)
}
