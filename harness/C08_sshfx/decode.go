//go:build verif

package sshfx

import "io"

func vN() int {
	if vThorough() {
		return 32
	}
	return 24
}

type vReader struct {
	data []byte
	pos  int
}

func (r *vReader) Read(p []byte) (int, error) {
	if r.pos >= len(r.data) {
		return 0, io.EOF
	}
	n := copy(p, r.data[r.pos:])
	r.pos += n
	return n, nil
}

func vh_C08_fx_readPacket() {
	data := vNondetBytesC(vN())
	vConsumed(len(data))
	max := vNondetU32()
	vAssume(max <= 256*1024)
	r := &vReader{data: data}
	b, err := readPacket(r, nil, max)
	if len(data) >= 4 {
		length := uint32(data[0])<<24 | uint32(data[1])<<16 | uint32(data[2])<<8 | uint32(data[3])
		if length > max || length < 5 {
			vAssert(err != nil, "over-long or too-short frame is refused")
			vAssert(r.pos == 4, "refused before the body is read")
		} else if uint64(length) > uint64(len(data)-4) {
			vAssert(err != nil, "declared length exceeding the available bytes is an error")
		} else {
			vAssert(err == nil && len(b) == int(length), "complete frame is delivered whole")
		}
	} else {
		vAssert(err != nil, "truncated length is an error")
	}
	vEmit("err", err != nil)
}

func vh_C08_fx_rawPacket() {
	data := vNondetBytesC(vN())
	vConsumed(len(data))
	var p RawPacket
	err := p.UnmarshalBinary(data)
	vAssert((err == nil) == (len(data) >= 5), "raw packet needs type+id")
	vEmit("err", err != nil)
	var q RawPacket
	err = q.ReadFrom(&vReader{data: data}, nil, DefaultMaxPacketLength)
	vEmit("err2", err != nil)
}

func vh_C08_fx_requestPacket() {
	data := vNondetBytesC(vN())
	vConsumed(len(data))
	var p RequestPacket
	err := p.UnmarshalBinary(data)
	vAssert(vImplies(err == nil, p.Request != nil), "request or error")
	vEmit("err", err != nil)
}

func vh_C08_fx_requestReadFrom() {
	data := vNondetBytesC(vN())
	vConsumed(len(data))
	var p RequestPacket
	err := p.ReadFrom(&vReader{data: data}, nil, DefaultMaxPacketLength)
	vEmit("err", err != nil)
}

// vInRecvBuf: the frame as it sits in a reusable receive buffer - a short
// prefix of a large array with unrelated content behind it, so that capacity
// and length differ by far (added after seeded change C08-f, which sized an
// allocation by the buffer's capacity)
func vInRecvBuf(data []byte) []byte {
	big := vHavocBytes(1 << 20)
	copy(big, data)
	return big[:len(data)]
}

func vh_C08_fx_responses() {
	data := vNondetBytesC(vN())
	vConsumed(len(data))
	if vNondetBool() {
		data = vInRecvBuf(data)
	}
	switch vChoice(7) {
	case 0:
		var p StatusPacket
		vEmit("err", p.UnmarshalPacketBody(NewBuffer(data)) != nil)
	case 1:
		var p HandlePacket
		vEmit("err", p.UnmarshalPacketBody(NewBuffer(data)) != nil)
	case 2:
		var p DataPacket
		err := p.UnmarshalPacketBody(NewBuffer(data))
		vAssert(vImplies(err == nil, len(p.Data)+4 <= len(data)), "DATA is backed by bytes")
		vEmit("err", err != nil)
	case 3:
		var p NamePacket
		err := p.UnmarshalPacketBody(NewBuffer(data))
		vAssert(vImplies(err == nil, len(p.Entries)*12+4 <= len(data)), "every NAME entry is backed by bytes")
		vEmit("err", err != nil)
	case 4:
		var p AttrsPacket
		vEmit("err", p.UnmarshalPacketBody(NewBuffer(data)) != nil)
	case 5:
		var p ExtendedReplyPacket
		vEmit("err", p.UnmarshalPacketBody(NewBuffer(data)) != nil)
	case 6:
		var p ExtendedPacket
		vEmit("err", p.UnmarshalPacketBody(NewBuffer(data)) != nil)
	}
}

func vh_C08_fx_attributes() {
	data := vNondetBytesC(vN())
	vConsumed(len(data))
	var a Attributes
	err := a.UnmarshalBinary(data)
	vAssert(vImplies(err == nil, len(a.ExtendedAttributes)*8 <= len(data)), "every extended attribute is backed by bytes")
	vEmit("err", err != nil)
}

func vh_C08_fx_attributesByFlags() {
	data := vNondetBytesC(vN())
	flags := vNondetU32()
	vConsumed(len(data) + 4)
	var a Attributes
	err := a.XXX_UnmarshalByFlags(flags, NewBuffer(data))
	vEmit("err", err != nil)
}

func vh_C08_fx_small() {
	data := vNondetBytesC(vN())
	vConsumed(len(data))
	switch vChoice(5) {
	case 0:
		var e NameEntry
		vEmit("err", e.UnmarshalBinary(data) != nil)
	case 1:
		var e ExtensionPair
		vEmit("err", e.UnmarshalBinary(data) != nil)
	case 2:
		var e ExtendedAttribute
		vEmit("err", e.UnmarshalBinary(data) != nil)
	case 3:
		var p InitPacket
		vEmit("err", p.UnmarshalBinary(data) != nil)
	case 4:
		var p VersionPacket
		vEmit("err", p.UnmarshalBinary(data) != nil)
	}
}

func vh_C08_fx_buffer() {
	data := vNondetBytesC(vN())
	vConsumed(len(data))
	b := NewBuffer(data)
	s := b.ConsumeByteSlice()
	vAssert(vImplies(b.Err == nil, len(s)+4+b.Len() == len(data)), "byte slice consumes prefix+body")
	vAssert(vImplies(b.Err != nil, b.Len() == 0 && s == nil), "after an error nothing more is delivered")
	c := NewBuffer(data)
	_ = c.ConsumeUint64()
	vAssert((c.Err == nil) == (len(data) >= 8), "uint64 needs 8 bytes")
	h := NewBuffer(data).ConsumeByteSliceCopy(nil)
	vEmit("l", len(h))
}
