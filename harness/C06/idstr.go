//go:build verif

package sftp

import sshfx "github.com/pkg/sftp/internal/encoding/ssh/filexfer"

func vh_C06_rt_readdir() {
	p := &sshFxpReaddirPacket{ID: vNondetU32(), Handle: vNondetStringC(vS)}
	b := vWire(p)
	vAssert(vBytesEq(b, refFrame(sshFxpReaddir, refStr(refU32(nil, p.ID), p.Handle))), "readdir layout per draft")
	q, err := vUnwire(b)
	vAssert(err == nil, "decode ok")
	r, ok := q.(*sshFxpReaddirPacket)
	vAssert(ok && r.ID == p.ID && r.Handle == p.Handle, "readdir round trip")
	// the other codec decodes the same bytes to the same fields, and encodes the same bytes
	var x sshfx.RequestPacket
	vAssert(x.UnmarshalBinary(b[4:]) == nil, "filexfer decodes main codec bytes")
	xp, ok := x.Request.(*sshfx.ReadDirPacket)
	vAssert(ok && x.RequestID == p.ID && xp.Handle == p.Handle, "readdir cross-codec fields")
	y := sshfx.RequestPacket{RequestID: p.ID, Request: &sshfx.ReadDirPacket{Handle: p.Handle}}
	yb, err := y.MarshalBinary()
	vAssert(err == nil && vBytesEq(yb, b), "readdir cross-codec bytes")
	vEmit("wire", b)
}

func vh_C06_rt_opendir() {
	p := &sshFxpOpendirPacket{ID: vNondetU32(), Path: vNondetStringC(vS)}
	b := vWire(p)
	vAssert(vBytesEq(b, refFrame(sshFxpOpendir, refStr(refU32(nil, p.ID), p.Path))), "opendir layout per draft")
	q, err := vUnwire(b)
	vAssert(err == nil, "decode ok")
	r, ok := q.(*sshFxpOpendirPacket)
	vAssert(ok && r.ID == p.ID && r.Path == p.Path, "opendir round trip")
	// the other codec decodes the same bytes to the same fields, and encodes the same bytes
	var x sshfx.RequestPacket
	vAssert(x.UnmarshalBinary(b[4:]) == nil, "filexfer decodes main codec bytes")
	xp, ok := x.Request.(*sshfx.OpenDirPacket)
	vAssert(ok && x.RequestID == p.ID && xp.Path == p.Path, "opendir cross-codec fields")
	y := sshfx.RequestPacket{RequestID: p.ID, Request: &sshfx.OpenDirPacket{Path: p.Path}}
	yb, err := y.MarshalBinary()
	vAssert(err == nil && vBytesEq(yb, b), "opendir cross-codec bytes")
	vEmit("wire", b)
}

func vh_C06_rt_lstat() {
	p := &sshFxpLstatPacket{ID: vNondetU32(), Path: vNondetStringC(vS)}
	b := vWire(p)
	vAssert(vBytesEq(b, refFrame(sshFxpLstat, refStr(refU32(nil, p.ID), p.Path))), "lstat layout per draft")
	q, err := vUnwire(b)
	vAssert(err == nil, "decode ok")
	r, ok := q.(*sshFxpLstatPacket)
	vAssert(ok && r.ID == p.ID && r.Path == p.Path, "lstat round trip")
	// the other codec decodes the same bytes to the same fields, and encodes the same bytes
	var x sshfx.RequestPacket
	vAssert(x.UnmarshalBinary(b[4:]) == nil, "filexfer decodes main codec bytes")
	xp, ok := x.Request.(*sshfx.LStatPacket)
	vAssert(ok && x.RequestID == p.ID && xp.Path == p.Path, "lstat cross-codec fields")
	y := sshfx.RequestPacket{RequestID: p.ID, Request: &sshfx.LStatPacket{Path: p.Path}}
	yb, err := y.MarshalBinary()
	vAssert(err == nil && vBytesEq(yb, b), "lstat cross-codec bytes")
	vEmit("wire", b)
}

func vh_C06_rt_stat() {
	p := &sshFxpStatPacket{ID: vNondetU32(), Path: vNondetStringC(vS)}
	b := vWire(p)
	vAssert(vBytesEq(b, refFrame(sshFxpStat, refStr(refU32(nil, p.ID), p.Path))), "stat layout per draft")
	q, err := vUnwire(b)
	vAssert(err == nil, "decode ok")
	r, ok := q.(*sshFxpStatPacket)
	vAssert(ok && r.ID == p.ID && r.Path == p.Path, "stat round trip")
	// the other codec decodes the same bytes to the same fields, and encodes the same bytes
	var x sshfx.RequestPacket
	vAssert(x.UnmarshalBinary(b[4:]) == nil, "filexfer decodes main codec bytes")
	xp, ok := x.Request.(*sshfx.StatPacket)
	vAssert(ok && x.RequestID == p.ID && xp.Path == p.Path, "stat cross-codec fields")
	y := sshfx.RequestPacket{RequestID: p.ID, Request: &sshfx.StatPacket{Path: p.Path}}
	yb, err := y.MarshalBinary()
	vAssert(err == nil && vBytesEq(yb, b), "stat cross-codec bytes")
	vEmit("wire", b)
}

func vh_C06_rt_fstat() {
	p := &sshFxpFstatPacket{ID: vNondetU32(), Handle: vNondetStringC(vS)}
	b := vWire(p)
	vAssert(vBytesEq(b, refFrame(sshFxpFstat, refStr(refU32(nil, p.ID), p.Handle))), "fstat layout per draft")
	q, err := vUnwire(b)
	vAssert(err == nil, "decode ok")
	r, ok := q.(*sshFxpFstatPacket)
	vAssert(ok && r.ID == p.ID && r.Handle == p.Handle, "fstat round trip")
	// the other codec decodes the same bytes to the same fields, and encodes the same bytes
	var x sshfx.RequestPacket
	vAssert(x.UnmarshalBinary(b[4:]) == nil, "filexfer decodes main codec bytes")
	xp, ok := x.Request.(*sshfx.FStatPacket)
	vAssert(ok && x.RequestID == p.ID && xp.Handle == p.Handle, "fstat cross-codec fields")
	y := sshfx.RequestPacket{RequestID: p.ID, Request: &sshfx.FStatPacket{Handle: p.Handle}}
	yb, err := y.MarshalBinary()
	vAssert(err == nil && vBytesEq(yb, b), "fstat cross-codec bytes")
	vEmit("wire", b)
}

func vh_C06_rt_close() {
	p := &sshFxpClosePacket{ID: vNondetU32(), Handle: vNondetStringC(vS)}
	b := vWire(p)
	vAssert(vBytesEq(b, refFrame(sshFxpClose, refStr(refU32(nil, p.ID), p.Handle))), "close layout per draft")
	q, err := vUnwire(b)
	vAssert(err == nil, "decode ok")
	r, ok := q.(*sshFxpClosePacket)
	vAssert(ok && r.ID == p.ID && r.Handle == p.Handle, "close round trip")
	// the other codec decodes the same bytes to the same fields, and encodes the same bytes
	var x sshfx.RequestPacket
	vAssert(x.UnmarshalBinary(b[4:]) == nil, "filexfer decodes main codec bytes")
	xp, ok := x.Request.(*sshfx.ClosePacket)
	vAssert(ok && x.RequestID == p.ID && xp.Handle == p.Handle, "close cross-codec fields")
	y := sshfx.RequestPacket{RequestID: p.ID, Request: &sshfx.ClosePacket{Handle: p.Handle}}
	yb, err := y.MarshalBinary()
	vAssert(err == nil && vBytesEq(yb, b), "close cross-codec bytes")
	vEmit("wire", b)
}

func vh_C06_rt_remove() {
	p := &sshFxpRemovePacket{ID: vNondetU32(), Filename: vNondetStringC(vS)}
	b := vWire(p)
	vAssert(vBytesEq(b, refFrame(sshFxpRemove, refStr(refU32(nil, p.ID), p.Filename))), "remove layout per draft")
	q, err := vUnwire(b)
	vAssert(err == nil, "decode ok")
	r, ok := q.(*sshFxpRemovePacket)
	vAssert(ok && r.ID == p.ID && r.Filename == p.Filename, "remove round trip")
	// the other codec decodes the same bytes to the same fields, and encodes the same bytes
	var x sshfx.RequestPacket
	vAssert(x.UnmarshalBinary(b[4:]) == nil, "filexfer decodes main codec bytes")
	xp, ok := x.Request.(*sshfx.RemovePacket)
	vAssert(ok && x.RequestID == p.ID && xp.Path == p.Filename, "remove cross-codec fields")
	y := sshfx.RequestPacket{RequestID: p.ID, Request: &sshfx.RemovePacket{Path: p.Filename}}
	yb, err := y.MarshalBinary()
	vAssert(err == nil && vBytesEq(yb, b), "remove cross-codec bytes")
	vEmit("wire", b)
}

func vh_C06_rt_rmdir() {
	p := &sshFxpRmdirPacket{ID: vNondetU32(), Path: vNondetStringC(vS)}
	b := vWire(p)
	vAssert(vBytesEq(b, refFrame(sshFxpRmdir, refStr(refU32(nil, p.ID), p.Path))), "rmdir layout per draft")
	q, err := vUnwire(b)
	vAssert(err == nil, "decode ok")
	r, ok := q.(*sshFxpRmdirPacket)
	vAssert(ok && r.ID == p.ID && r.Path == p.Path, "rmdir round trip")
	// the other codec decodes the same bytes to the same fields, and encodes the same bytes
	var x sshfx.RequestPacket
	vAssert(x.UnmarshalBinary(b[4:]) == nil, "filexfer decodes main codec bytes")
	xp, ok := x.Request.(*sshfx.RmdirPacket)
	vAssert(ok && x.RequestID == p.ID && xp.Path == p.Path, "rmdir cross-codec fields")
	y := sshfx.RequestPacket{RequestID: p.ID, Request: &sshfx.RmdirPacket{Path: p.Path}}
	yb, err := y.MarshalBinary()
	vAssert(err == nil && vBytesEq(yb, b), "rmdir cross-codec bytes")
	vEmit("wire", b)
}

func vh_C06_rt_readlink() {
	p := &sshFxpReadlinkPacket{ID: vNondetU32(), Path: vNondetStringC(vS)}
	b := vWire(p)
	vAssert(vBytesEq(b, refFrame(sshFxpReadlink, refStr(refU32(nil, p.ID), p.Path))), "readlink layout per draft")
	q, err := vUnwire(b)
	vAssert(err == nil, "decode ok")
	r, ok := q.(*sshFxpReadlinkPacket)
	vAssert(ok && r.ID == p.ID && r.Path == p.Path, "readlink round trip")
	// the other codec decodes the same bytes to the same fields, and encodes the same bytes
	var x sshfx.RequestPacket
	vAssert(x.UnmarshalBinary(b[4:]) == nil, "filexfer decodes main codec bytes")
	xp, ok := x.Request.(*sshfx.ReadLinkPacket)
	vAssert(ok && x.RequestID == p.ID && xp.Path == p.Path, "readlink cross-codec fields")
	y := sshfx.RequestPacket{RequestID: p.ID, Request: &sshfx.ReadLinkPacket{Path: p.Path}}
	yb, err := y.MarshalBinary()
	vAssert(err == nil && vBytesEq(yb, b), "readlink cross-codec bytes")
	vEmit("wire", b)
}

func vh_C06_rt_realpath() {
	p := &sshFxpRealpathPacket{ID: vNondetU32(), Path: vNondetStringC(vS)}
	b := vWire(p)
	vAssert(vBytesEq(b, refFrame(sshFxpRealpath, refStr(refU32(nil, p.ID), p.Path))), "realpath layout per draft")
	q, err := vUnwire(b)
	vAssert(err == nil, "decode ok")
	r, ok := q.(*sshFxpRealpathPacket)
	vAssert(ok && r.ID == p.ID && r.Path == p.Path, "realpath round trip")
	// the other codec decodes the same bytes to the same fields, and encodes the same bytes
	var x sshfx.RequestPacket
	vAssert(x.UnmarshalBinary(b[4:]) == nil, "filexfer decodes main codec bytes")
	xp, ok := x.Request.(*sshfx.RealPathPacket)
	vAssert(ok && x.RequestID == p.ID && xp.Path == p.Path, "realpath cross-codec fields")
	y := sshfx.RequestPacket{RequestID: p.ID, Request: &sshfx.RealPathPacket{Path: p.Path}}
	yb, err := y.MarshalBinary()
	vAssert(err == nil && vBytesEq(yb, b), "realpath cross-codec bytes")
	vEmit("wire", b)
}
