//go:build verif

package sftp

import (
	"os"
	"syscall"
	"time"

	sshfx "github.com/pkg/sftp/internal/encoding/ssh/filexfer"
	"github.com/pkg/sftp/internal/encoding/ssh/filexfer/openssh"
)

// vSymFileInfo builds an arbitrary FileInfo of one of the flavours and
// returns the FileStat / flags the wire form must carry.
func vSymFileInfo(name string) (os.FileInfo, uint32, *FileStat) {
	fs := vSymFileStat()
	mode := vSymOSMode()
	fs.Mode = fromFileMode(mode)
	fs.Atime = fs.Mtime
	base := vFI{name: name, size: int64(fs.Size), mode: mode, mtime: time.Unix(int64(fs.Mtime), 0)}
	flags := uint32(sshFileXferAttrSize | sshFileXferAttrPermissions | sshFileXferAttrACmodTime)
	switch vChoice(4) {
	case 0:
		fs.Extended = nil
		return &base, flags, fs
	case 1:
		fs.Extended = nil
		return &vFIUidGid{vFI: base, uid: fs.UID, gid: fs.GID}, flags | sshFileXferAttrUIDGID, fs
	case 2:
		fs.Extended = nil
		base.sys = &syscall.Stat_t{Uid: fs.UID, Gid: fs.GID}
		return &base, flags | sshFileXferAttrUIDGID, fs
	default:
		if len(fs.Extended) > 0 {
			flags |= sshFileXferAttrExtended
		}
		return &vFIExt{vFIUidGid: vFIUidGid{vFI: base, uid: fs.UID, gid: fs.GID}, ext: fs.Extended}, flags | sshFileXferAttrUIDGID, fs
	}
}

// vSimpleFileInfo: a regular file with arbitrary size/perm/mtime (no flavour
// forks; the flavours are covered by vh_C06_rt_attrs).
func vSimpleFileInfo(name string) (os.FileInfo, uint32, *FileStat) {
	perm := vNondetU32()
	vAssume(perm&^uint32(0o777) == 0)
	fs := &FileStat{Size: vNondetU64(), Mtime: vNondetU32()}
	fs.Atime = fs.Mtime
	fs.Mode = perm | 0o100000
	fi := &vFI{name: name, size: int64(fs.Size), mode: os.FileMode(perm), mtime: time.Unix(int64(fs.Mtime), 0)}
	return fi, uint32(sshFileXferAttrSize | sshFileXferAttrPermissions | sshFileXferAttrACmodTime), fs
}

func vSymOSMode() os.FileMode {
	perm := vNondetU32()
	vAssume(perm&^uint32(0o777) == 0)
	fm := os.FileMode(perm)
	switch vChoice(7) {
	case 1:
		fm |= os.ModeDir
	case 2:
		fm |= os.ModeSymlink
	case 3:
		fm |= os.ModeNamedPipe
	case 4:
		fm |= os.ModeSocket
	case 5:
		fm |= os.ModeDevice
	case 6:
		fm |= os.ModeDevice | os.ModeCharDevice
	}
	sp := vNondetU8()
	if sp&1 != 0 {
		fm |= os.ModeSetuid
	}
	if sp&2 != 0 {
		fm |= os.ModeSetgid
	}
	if sp&4 != 0 {
		fm |= os.ModeSticky
	}
	return fm
}

func vRawBody(b []byte) (*sshfx.RawPacket, bool) {
	var rp sshfx.RawPacket
	if rp.UnmarshalBinary(b[4:]) != nil {
		return nil, false
	}
	return &rp, true
}

func vh_C06_rt_status() {
	p := &sshFxpStatusPacket{ID: vNondetU32(), StatusError: StatusError{Code: vNondetU32(), msg: vNondetStringC(vS), lang: vNondetStringC(2)}}
	b := vWire(p)
	vAssert(vBytesEq(b, refFrame(sshFxpStatus, refStr(refStr(refU32(refU32(nil, p.ID), p.Code), p.msg), p.lang))), "STATUS layout per draft")
	// the client's decoder
	err := unmarshalStatus(p.ID, b[5:])
	se, ok := err.(*StatusError)
	vAssert(ok && se.Code == p.Code && se.msg == p.msg && se.lang == p.lang, "STATUS round trip (client decoder)")
	rp, ok := vRawBody(b)
	vAssert(ok && rp.PacketType == sshfx.PacketTypeStatus && rp.RequestID == p.ID, "filexfer decodes STATUS envelope")
	var x sshfx.StatusPacket
	vAssert(x.UnmarshalPacketBody(&rp.Data) == nil && uint32(x.StatusCode) == p.Code && x.ErrorMessage == p.msg && x.LanguageTag == p.lang, "STATUS cross-codec fields")
	yb, err := sshfx.ComposePacket((&sshfx.StatusPacket{StatusCode: sshfx.Status(p.Code), ErrorMessage: p.msg, LanguageTag: p.lang}).MarshalPacket(p.ID, nil))
	vAssert(err == nil && vBytesEq(yb, b), "STATUS cross-codec bytes")
	vEmit("wire", b)
}

func vh_C06_rt_handle() {
	p := &sshFxpHandlePacket{ID: vNondetU32(), Handle: vNondetStringC(vS)}
	b := vWire(p)
	vAssert(vBytesEq(b, refFrame(sshFxpHandle, refStr(refU32(nil, p.ID), p.Handle))), "HANDLE layout per draft")
	id, rest, err := unmarshalUint32Safe(b[5:])
	h, _, err2 := unmarshalStringSafe(rest)
	vAssert(err == nil && err2 == nil && id == p.ID && h == p.Handle, "HANDLE round trip")
	rp, ok := vRawBody(b)
	vAssert(ok && rp.PacketType == sshfx.PacketTypeHandle && rp.RequestID == p.ID, "filexfer decodes HANDLE envelope")
	var x sshfx.HandlePacket
	vAssert(x.UnmarshalPacketBody(&rp.Data) == nil && x.Handle == p.Handle, "HANDLE cross-codec fields")
	yb, err := sshfx.ComposePacket((&sshfx.HandlePacket{Handle: p.Handle}).MarshalPacket(p.ID, nil))
	vAssert(err == nil && vBytesEq(yb, b), "HANDLE cross-codec bytes")
	vEmit("wire", b)
}

func vDataBound() int {
	if vThorough() {
		return 16
	}
	return 6
}

func vh_C06_rt_data() {
	// the server's READ branch allocates the data slice with extra capacity
	// (or takes it from an allocator page): both shapes are exercised
	data := vNondetBytesC(vDataBound())
	n := len(data)
	var buf []byte
	if vNondetBool() {
		buf = make([]byte, n, n+dataHeaderLen)
	} else {
		buf = make([]byte, n, n+40)
	}
	copy(buf, data)
	p := &sshFxpDataPacket{ID: vNondetU32(), Length: uint32(n), Data: buf}
	b := vWire(p)
	ref := refFrame(sshFxpData, append(refU32(refU32(nil, p.ID), uint32(n)), data...))
	vAssert(vBytesEq(b, ref), "DATA layout per draft (marshalPacket path)")
	mb, err := p.MarshalBinary()
	vAssert(err == nil && len(mb) == len(ref) && vBytesEq(mb[4:], ref[4:]), "DATA layout per draft (MarshalBinary path)")
	var d sshFxpDataPacket
	vAssert(d.UnmarshalBinary(b[5:]) == nil && d.ID == p.ID && d.Length == uint32(n) && vBytesEq(d.Data, data), "DATA round trip")
	rp, ok := vRawBody(b)
	vAssert(ok && rp.PacketType == sshfx.PacketTypeData && rp.RequestID == p.ID, "filexfer decodes DATA envelope")
	var x sshfx.DataPacket
	vAssert(x.UnmarshalPacketBody(&rp.Data) == nil && vBytesEq(x.Data, data), "DATA cross-codec fields")
	// decoding into a packet value that is being reused (its Data still holds a
	// longer, or shorter, earlier payload) gives the same packet (added after
	// seeded change C06-f)
	rp2, ok2 := vRawBody(b)
	x2 := sshfx.DataPacket{Data: vHavocBytes(vChoice(n + 4))}
	vAssert(ok2 && x2.UnmarshalPacketBody(&rp2.Data) == nil && vBytesEq(x2.Data, data), "DATA decoded into a reused packet value")
	yb, err := sshfx.ComposePacket((&sshfx.DataPacket{Data: data}).MarshalPacket(p.ID, nil))
	vAssert(err == nil && vBytesEq(yb, ref), "DATA cross-codec bytes")
	vEmit("wire", b)
}

func vh_C06_rt_attrs() {
	fi, flags, fs := vSymFileInfo("n")
	p := &sshFxpStatResponse{ID: vNondetU32(), info: fi}
	b := vWire(p)
	ref := refFrame(sshFxpAttrs, refAttrs(refU32(refU32(nil, p.ID), flags), flags, fs))
	vAssert(vBytesEq(b, ref), "ATTRS layout per draft")
	id, rest, err := unmarshalUint32Safe(b[5:])
	vAssert(err == nil && id == p.ID, "ATTRS id")
	got, _, err := unmarshalAttrs(rest)
	vAssert(err == nil && vSameByFlags(flags, fs, got), "ATTRS round trip")
	back := fileInfoFromStat(got, "n")
	vAssert(back.Size() == fi.Size() && back.Mode() == fi.Mode() && back.ModTime().Unix() == fi.ModTime().Unix() && back.IsDir() == fi.IsDir(), "FileInfo survives the wire")
	rp, ok := vRawBody(b)
	vAssert(ok && rp.PacketType == sshfx.PacketTypeAttrs && rp.RequestID == p.ID, "filexfer decodes ATTRS envelope")
	var x sshfx.AttrsPacket
	vAssert(x.UnmarshalPacketBody(&rp.Data) == nil && vSameAttrs(flags, fs, &x.Attrs), "ATTRS cross-codec fields")
	yb, err := sshfx.ComposePacket((&sshfx.AttrsPacket{Attrs: vAttrsOf(flags, fs)}).MarshalPacket(p.ID, nil))
	vAssert(err == nil && vBytesEq(yb, ref), "ATTRS cross-codec bytes")
	vEmit("wire", b)
}

func vNNames() int {
	if vThorough() {
		return 3
	}
	return 2
}

func vh_C06_rt_name() {
	p := &sshFxpNamePacket{ID: vNondetU32()}
	n := vChoice(vNNames() + 1)
	body := refU32(refU32(nil, p.ID), uint32(n))
	var xe []*sshfx.NameEntry
	var fss []*FileStat
	var fls []uint32
	for i := 0; i < n; i++ {
		name, long := vNondetStringC(2), vNondetStringC(2)
		fi, flags, fs := vSimpleFileInfo(name)
		p.NameAttrs = append(p.NameAttrs, &sshFxpNameAttr{Name: name, LongName: long, Attrs: []any{fi}})
		body = refAttrs(refU32(refStr(refStr(body, name), long), flags), flags, fs)
		xe = append(xe, &sshfx.NameEntry{Filename: name, Longname: long, Attrs: vAttrsOf(flags, fs)})
		fss = append(fss, fs)
		fls = append(fls, flags)
	}
	b := vWire(p)
	ref := refFrame(sshFxpName, body)
	vAssert(vBytesEq(b, ref), "NAME layout per draft")
	rp, ok := vRawBody(b)
	vAssert(ok && rp.PacketType == sshfx.PacketTypeName && rp.RequestID == p.ID, "filexfer decodes NAME envelope")
	var x sshfx.NamePacket
	vAssert(x.UnmarshalPacketBody(&rp.Data) == nil && len(x.Entries) == n, "NAME cross-codec count")
	for i := 0; i < n && i < len(x.Entries); i++ {
		vAssert(x.Entries[i].Filename == p.NameAttrs[i].Name && x.Entries[i].Longname == p.NameAttrs[i].LongName && vSameAttrs(fls[i], fss[i], &x.Entries[i].Attrs), "NAME cross-codec entry")
	}
	yb, err := sshfx.ComposePacket((&sshfx.NamePacket{Entries: xe}).MarshalPacket(p.ID, nil))
	vAssert(err == nil && vBytesEq(yb, ref), "NAME cross-codec bytes")
	vEmit("wire", b)
}

func vh_C06_rt_statvfs_reply() {
	p := &StatVFS{ID: vNondetU32(), Bsize: vNondetU64(), Frsize: vNondetU64(), Blocks: vNondetU64(), Bfree: vNondetU64(), Bavail: vNondetU64(),
		Files: vNondetU64(), Ffree: vNondetU64(), Favail: vNondetU64(), Fsid: vNondetU64(), Flag: vNondetU64(), Namemax: vNondetU64()}
	b := vWire(p)
	body := refU32(nil, p.ID)
	for _, v := range []uint64{p.Bsize, p.Frsize, p.Blocks, p.Bfree, p.Bavail, p.Files, p.Ffree, p.Favail, p.Fsid, p.Flag, p.Namemax} {
		body = refU64(body, v)
	}
	ref := refFrame(sshFxpExtendedReply, body)
	vAssert(vBytesEq(b, ref), "statvfs reply layout per OpenSSH")
	x := &openssh.StatVFSExtendedReplyPacket{BlockSize: p.Bsize, FragmentSize: p.Frsize, Blocks: p.Blocks, BlocksFree: p.Bfree, BlocksAvail: p.Bavail,
		Files: p.Files, FilesFree: p.Ffree, FilesAvail: p.Favail, FilesystemID: p.Fsid, MountFlags: p.Flag, MaxNameLength: p.Namemax}
	yb, err := sshfx.ComposePacket(x.MarshalPacket(p.ID, nil))
	vAssert(err == nil && vBytesEq(yb, ref), "statvfs reply cross-codec bytes")
	rp, ok := vRawBody(b)
	vAssert(ok && rp.PacketType == sshfx.PacketTypeExtendedReply && rp.RequestID == p.ID, "filexfer decodes reply envelope")
	var d openssh.StatVFSExtendedReplyPacket
	vAssert(d.UnmarshalPacketBody(&rp.Data) == nil && d == *x, "statvfs reply cross-codec fields")
	vEmit("wire", b)
}
