//go:build verif

package sftp

import (
	sshfx "github.com/pkg/sftp/internal/encoding/ssh/filexfer"
)

func vNExt() int {
	if vThorough() {
		return 2
	}
	return 1
}

// vSymFileStat returns a FileStat with arbitrary field values and up to
// vNExt() extended attributes.
func vSymFileStat() *FileStat {
	fs := &FileStat{Size: vNondetU64(), Mode: vNondetU32(), Mtime: vNondetU32(), Atime: vNondetU32(), UID: vNondetU32(), GID: vNondetU32()}
	n := vChoice(vNExt() + 1)
	for i := 0; i < n; i++ {
		fs.Extended = append(fs.Extended, StatExtended{ExtType: vNondetStringC(2), ExtData: vNondetStringC(2)})
	}
	return fs
}

// reference attribute block (draft section 5)
func refAttrs(b []byte, flags uint32, fs *FileStat) []byte {
	if flags&0x1 != 0 {
		b = refU64(b, fs.Size)
	}
	if flags&0x2 != 0 {
		b = refU32(refU32(b, fs.UID), fs.GID)
	}
	if flags&0x4 != 0 {
		b = refU32(b, fs.Mode)
	}
	if flags&0x8 != 0 {
		b = refU32(refU32(b, fs.Atime), fs.Mtime)
	}
	if flags&0x80000000 != 0 {
		b = refU32(b, uint32(len(fs.Extended)))
		for _, e := range fs.Extended {
			b = refStr(refStr(b, e.ExtType), e.ExtData)
		}
	}
	return b
}

func vAttrsOf(flags uint32, fs *FileStat) sshfx.Attributes {
	a := sshfx.Attributes{Flags: flags, Size: fs.Size, UID: fs.UID, GID: fs.GID, Permissions: sshfx.FileMode(fs.Mode), ATime: fs.Atime, MTime: fs.Mtime}
	for _, e := range fs.Extended {
		a.ExtendedAttributes = append(a.ExtendedAttributes, sshfx.ExtendedAttribute{Type: e.ExtType, Data: e.ExtData})
	}
	return a
}

// vSameByFlags: the fields selected by flags agree.
func vSameByFlags(flags uint32, a, b *FileStat) bool {
	ok := true
	if flags&0x1 != 0 {
		ok = vAnd(ok, a.Size == b.Size)
	}
	if flags&0x2 != 0 {
		ok = vAnd(ok, a.UID == b.UID && a.GID == b.GID)
	}
	if flags&0x4 != 0 {
		ok = vAnd(ok, a.Mode == b.Mode)
	}
	if flags&0x8 != 0 {
		ok = vAnd(ok, a.Atime == b.Atime && a.Mtime == b.Mtime)
	}
	if flags&0x80000000 != 0 {
		ok = vAnd(ok, len(a.Extended) == len(b.Extended))
		for i := 0; ok && i < len(a.Extended); i++ {
			ok = a.Extended[i].ExtType == b.Extended[i].ExtType && a.Extended[i].ExtData == b.Extended[i].ExtData
		}
	}
	return ok
}

func vSameAttrs(flags uint32, fs *FileStat, a *sshfx.Attributes) bool {
	ok := a.Flags == flags
	if flags&0x1 != 0 {
		ok = vAnd(ok, a.Size == fs.Size)
	}
	if flags&0x2 != 0 {
		ok = vAnd(ok, a.UID == fs.UID && a.GID == fs.GID)
	}
	if flags&0x4 != 0 {
		ok = vAnd(ok, uint32(a.Permissions) == fs.Mode)
	}
	if flags&0x8 != 0 {
		ok = vAnd(ok, a.ATime == fs.Atime && a.MTime == fs.Mtime)
	}
	if flags&0x80000000 != 0 {
		ok = vAnd(ok, len(a.ExtendedAttributes) == len(fs.Extended))
		for i := 0; ok && i < len(fs.Extended); i++ {
			ok = a.ExtendedAttributes[i].Type == fs.Extended[i].ExtType && a.ExtendedAttributes[i].Data == fs.Extended[i].ExtData
		}
	}
	return ok
}

func vh_C06_rt_open() {
	fs := vSymFileStat()
	p := &sshFxpOpenPacket{ID: vNondetU32(), Path: vNondetStringC(vS), Pflags: vNondetU32(), Flags: vNondetU32(), Attrs: fs}
	b := vWire(p)
	body := refU32(refU32(refStr(refU32(nil, p.ID), p.Path), p.Pflags), p.Flags)
	body = refAttrs(body, p.Flags, fs)
	vAssert(vBytesEq(b, refFrame(sshFxpOpen, body)), "OPEN layout per draft")
	q, err := vUnwire(b)
	vAssert(err == nil, "decode ok")
	r, ok := q.(*sshFxpOpenPacket)
	vAssert(ok && r.ID == p.ID && r.Path == p.Path && r.Pflags == p.Pflags && r.Flags == p.Flags, "OPEN round trip (fixed fields)")
	rfs, err := r.unmarshalFileStat(r.Flags)
	vAssert(err == nil && vSameByFlags(p.Flags, fs, rfs), "OPEN round trip (attributes by flags)")
	var x sshfx.RequestPacket
	vAssert(x.UnmarshalBinary(b[4:]) == nil, "filexfer decodes main codec bytes")
	xp, ok := x.Request.(*sshfx.OpenPacket)
	vAssert(ok && x.RequestID == p.ID && xp.Filename == p.Path && xp.PFlags == p.Pflags && vSameAttrs(p.Flags, fs, &xp.Attrs), "OPEN cross-codec fields")
	y := sshfx.RequestPacket{RequestID: p.ID, Request: &sshfx.OpenPacket{Filename: p.Path, PFlags: p.Pflags, Attrs: vAttrsOf(p.Flags, fs)}}
	yb, err := y.MarshalBinary()
	vAssert(err == nil && vBytesEq(yb, b), "OPEN cross-codec bytes")
	vEmit("wire", b)
}

func vh_C06_rt_setstat() {
	fs := vSymFileStat()
	p := &sshFxpSetstatPacket{ID: vNondetU32(), Path: vNondetStringC(vS), Flags: vNondetU32(), Attrs: fs}
	b := vWire(p)
	body := refAttrs(refU32(refStr(refU32(nil, p.ID), p.Path), p.Flags), p.Flags, fs)
	vAssert(vBytesEq(b, refFrame(sshFxpSetstat, body)), "SETSTAT layout per draft")
	q, err := vUnwire(b)
	vAssert(err == nil, "decode ok")
	r, ok := q.(*sshFxpSetstatPacket)
	vAssert(ok && r.ID == p.ID && r.Path == p.Path && r.Flags == p.Flags, "SETSTAT round trip (fixed fields)")
	rfs, err := r.unmarshalFileStat(r.Flags)
	vAssert(err == nil && vSameByFlags(p.Flags, fs, rfs), "SETSTAT round trip (attributes by flags)")
	var x sshfx.RequestPacket
	vAssert(x.UnmarshalBinary(b[4:]) == nil, "filexfer decodes main codec bytes")
	xp, ok := x.Request.(*sshfx.SetstatPacket)
	vAssert(ok && x.RequestID == p.ID && xp.Path == p.Path && vSameAttrs(p.Flags, fs, &xp.Attrs), "SETSTAT cross-codec fields")
	y := sshfx.RequestPacket{RequestID: p.ID, Request: &sshfx.SetstatPacket{Path: p.Path, Attrs: vAttrsOf(p.Flags, fs)}}
	yb, err := y.MarshalBinary()
	vAssert(err == nil && vBytesEq(yb, b), "SETSTAT cross-codec bytes")
	vEmit("wire", b)
}

func vh_C06_rt_fsetstat() {
	fs := vSymFileStat()
	p := &sshFxpFsetstatPacket{ID: vNondetU32(), Handle: vNondetStringC(vS), Flags: vNondetU32(), Attrs: fs}
	b := vWire(p)
	body := refAttrs(refU32(refStr(refU32(nil, p.ID), p.Handle), p.Flags), p.Flags, fs)
	vAssert(vBytesEq(b, refFrame(sshFxpFsetstat, body)), "FSETSTAT layout per draft")
	q, err := vUnwire(b)
	vAssert(err == nil, "decode ok")
	r, ok := q.(*sshFxpFsetstatPacket)
	vAssert(ok && r.ID == p.ID && r.Handle == p.Handle && r.Flags == p.Flags, "FSETSTAT round trip (fixed fields)")
	rfs, err := r.unmarshalFileStat(r.Flags)
	vAssert(err == nil && vSameByFlags(p.Flags, fs, rfs), "FSETSTAT round trip (attributes by flags)")
	var x sshfx.RequestPacket
	vAssert(x.UnmarshalBinary(b[4:]) == nil, "filexfer decodes main codec bytes")
	xp, ok := x.Request.(*sshfx.FSetstatPacket)
	vAssert(ok && x.RequestID == p.ID && xp.Handle == p.Handle && vSameAttrs(p.Flags, fs, &xp.Attrs), "FSETSTAT cross-codec fields")
	y := sshfx.RequestPacket{RequestID: p.ID, Request: &sshfx.FSetstatPacket{Handle: p.Handle, Attrs: vAttrsOf(p.Flags, fs)}}
	yb, err := y.MarshalBinary()
	vAssert(err == nil && vBytesEq(yb, b), "FSETSTAT cross-codec bytes")
	vEmit("wire", b)
}

// the extended-attribute list on its own, with two and three pairs also in the
// quick tier (the flavours above carry at most one there): encode per draft,
// decode back the same pairs, and consume exactly the block - what follows it
// (the next NAME entry, say) is left untouched (added after seeded change C06-d)
func vh_C06_rt_filestat_extended() {
	fs := &FileStat{Size: vNondetU64()}
	n := 2 + vChoice(2)
	for i := 0; i < n; i++ {
		fs.Extended = append(fs.Extended, StatExtended{ExtType: vNondetStringC(2), ExtData: vNondetStringC(2)})
	}
	flags := uint32(sshFileXferAttrExtended)
	if vNondetBool() {
		flags |= sshFileXferAttrSize
	}
	b := marshalFileStat(nil, flags, fs)
	vAssert(vBytesEq(b, refAttrs(nil, flags, fs)), "extended attributes: layout per draft")
	tail := vNondetBytesC(3)
	got, rest, err := unmarshalFileStat(flags, append(append([]byte{}, b...), tail...))
	vAssert(err == nil && got != nil, "extended attributes decode")
	vAssert(vBytesEq(rest, tail), "the decoder consumes exactly the attribute block")
	vAssert(len(got.Extended) == n, "as many pairs as were encoded")
	if len(got.Extended) == n {
		for i := 0; i < n; i++ {
			vAssert(got.Extended[i].ExtType == fs.Extended[i].ExtType && got.Extended[i].ExtData == fs.Extended[i].ExtData, "every pair comes back as encoded")
		}
	}
	if flags&sshFileXferAttrSize != 0 {
		vAssert(got.Size == fs.Size, "size comes back")
	}
}
