//go:build verif

package sftp

const vS = 3 // string bound (quick)

func vh_C06_rt_read() {
	p := &sshFxpReadPacket{ID: vNondetU32(), Len: vNondetU32(), Offset: vNondetU64(), Handle: vNondetStringC(vS)}
	b := vWire(p)
	ref := refFrame(sshFxpRead, refU32(refU64(refStr(refU32(nil, p.ID), p.Handle), p.Offset), p.Len))
	vAssert(vBytesEq(b, ref), "READ layout per draft")
	q, err := vUnwire(b)
	vAssert(err == nil, "decode ok")
	r, ok := q.(*sshFxpReadPacket)
	vAssert(ok, "decoded type")
	vAssert(r.ID == p.ID && r.Len == p.Len && r.Offset == p.Offset && r.Handle == p.Handle, "READ round trip")
	vEmit("wire", b)
}

func vh_C06_rt_write() {
	data := vNondetBytesC(4)
	p := &sshFxpWritePacket{ID: vNondetU32(), Offset: vNondetU64(), Handle: vNondetStringC(vS), Length: uint32(len(data)), Data: data}
	b := vWire(p)
	body := refU64(refStr(refU32(nil, p.ID), p.Handle), p.Offset)
	body = refU32(body, uint32(len(data)))
	body = append(body, data...)
	vAssert(vBytesEq(b, refFrame(sshFxpWrite, body)), "WRITE layout per draft")
	q, err := vUnwire(b)
	vAssert(err == nil, "decode ok")
	r, ok := q.(*sshFxpWritePacket)
	vAssert(ok, "decoded type")
	vAssert(r.ID == p.ID && r.Length == p.Length && r.Offset == p.Offset && r.Handle == p.Handle && vBytesEq(r.Data, data), "WRITE round trip")
	vEmit("wire", b)
}
