//go:build verif

package sftp

import sshfx "github.com/pkg/sftp/internal/encoding/ssh/filexfer"

const vS = 3 // string bound (quick)

func vh_C06_rt_read() {
	p := &sshFxpReadPacket{ID: vNondetU32(), Len: vNondetU32(), Offset: vNondetU64(), Handle: vNondetStringC(vS)}
	b := vWire(p)
	ref := refFrame(sshFxpRead, refU32(refU64(refStr(refU32(nil, p.ID), p.Handle), p.Offset), p.Len))
	vAssert(vBytesEq(b, ref), "READ layout per draft")
	q, err := vUnwire(b)
	vAssert(err == nil, "decode ok")
	r, ok := q.(*sshFxpReadPacket)
	vAssert(ok, "decoded type")
	vAssert(r.ID == p.ID && r.Len == p.Len && r.Offset == p.Offset && r.Handle == p.Handle, "READ round trip")
	vEmit("wire", b)
}

func vh_C06_rt_write() {
	data := vNondetBytesC(4)
	p := &sshFxpWritePacket{ID: vNondetU32(), Offset: vNondetU64(), Handle: vNondetStringC(vS), Length: uint32(len(data)), Data: data}
	b := vWire(p)
	body := refU64(refStr(refU32(nil, p.ID), p.Handle), p.Offset)
	body = refU32(body, uint32(len(data)))
	body = append(body, data...)
	vAssert(vBytesEq(b, refFrame(sshFxpWrite, body)), "WRITE layout per draft")
	q, err := vUnwire(b)
	vAssert(err == nil, "decode ok")
	r, ok := q.(*sshFxpWritePacket)
	vAssert(ok, "decoded type")
	vAssert(r.ID == p.ID && r.Length == p.Length && r.Offset == p.Offset && r.Handle == p.Handle && vBytesEq(r.Data, data), "WRITE round trip")
	// the internal codec decodes the same bytes to the same fields, into a fresh
	// and into a reused packet value
	for _, old := range [][]byte{nil, vHavocBytes(vChoice(len(data) + 4))} {
		var rp sshfx.RawPacket
		vAssert(rp.UnmarshalBinary(b[4:]) == nil && rp.PacketType == sshfx.PacketTypeWrite && rp.RequestID == p.ID, "filexfer decodes WRITE envelope")
		x := sshfx.WritePacket{Data: old}
		vAssert(x.UnmarshalPacketBody(&rp.Data) == nil && x.Handle == p.Handle && x.Offset == p.Offset && vBytesEq(x.Data, data), "WRITE cross-codec fields (fresh and reused packet value)")
	}
	vEmit("wire", b)
}
