//go:build verif

package sftp

import (
	sshfx "github.com/pkg/sftp/internal/encoding/ssh/filexfer"
	"github.com/pkg/sftp/internal/encoding/ssh/filexfer/openssh"
)

func vh_C06_rt_mkdir() {
	p := &sshFxpMkdirPacket{ID: vNondetU32(), Path: vNondetStringC(vS), Flags: vNondetU32()}
	b := vWire(p)
	vAssert(vBytesEq(b, refFrame(sshFxpMkdir, refU32(refStr(refU32(nil, p.ID), p.Path), p.Flags))), "MKDIR layout per draft")
	q, err := vUnwire(b)
	vAssert(err == nil, "decode ok")
	r, ok := q.(*sshFxpMkdirPacket)
	vAssert(ok && r.ID == p.ID && r.Path == p.Path && r.Flags == p.Flags, "MKDIR round trip")
	// the main codec sends a bare flags word; with flags == 0 that is an empty attribute block
	if p.Flags == 0 {
		var x sshfx.RequestPacket
		vAssert(x.UnmarshalBinary(b[4:]) == nil, "filexfer decodes main codec bytes")
		xp, ok := x.Request.(*sshfx.MkdirPacket)
		vAssert(ok && x.RequestID == p.ID && xp.Path == p.Path && xp.Attrs.Flags == 0, "MKDIR cross-codec fields")
		y := sshfx.RequestPacket{RequestID: p.ID, Request: &sshfx.MkdirPacket{Path: p.Path}}
		yb, err := y.MarshalBinary()
		vAssert(err == nil && vBytesEq(yb, b), "MKDIR cross-codec bytes")
	}
	vEmit("wire", b)
}

func vh_C06_rt_rename() {
	p := &sshFxpRenamePacket{ID: vNondetU32(), Oldpath: vNondetStringC(vS), Newpath: vNondetStringC(vS)}
	b := vWire(p)
	vAssert(vBytesEq(b, refFrame(sshFxpRename, refStr(refStr(refU32(nil, p.ID), p.Oldpath), p.Newpath))), "RENAME layout per draft")
	q, err := vUnwire(b)
	vAssert(err == nil, "decode ok")
	r, ok := q.(*sshFxpRenamePacket)
	vAssert(ok && r.ID == p.ID && r.Oldpath == p.Oldpath && r.Newpath == p.Newpath, "RENAME round trip")
	var x sshfx.RequestPacket
	vAssert(x.UnmarshalBinary(b[4:]) == nil, "filexfer decodes main codec bytes")
	xp, ok := x.Request.(*sshfx.RenamePacket)
	vAssert(ok && x.RequestID == p.ID && xp.OldPath == p.Oldpath && xp.NewPath == p.Newpath, "RENAME cross-codec fields")
	y := sshfx.RequestPacket{RequestID: p.ID, Request: &sshfx.RenamePacket{OldPath: p.Oldpath, NewPath: p.Newpath}}
	yb, err := y.MarshalBinary()
	vAssert(err == nil && vBytesEq(yb, b), "RENAME cross-codec bytes")
	vEmit("wire", b)
}

// SYMLINK: OpenSSH PROTOCOL section 4.1: the wire order is (targetpath, linkpath)
func vh_C06_rt_symlink() {
	p := &sshFxpSymlinkPacket{ID: vNondetU32(), Targetpath: vNondetStringC(vS), Linkpath: vNondetStringC(vS)}
	b := vWire(p)
	vAssert(vBytesEq(b, refFrame(sshFxpSymlink, refStr(refStr(refU32(nil, p.ID), p.Targetpath), p.Linkpath))), "SYMLINK layout per OpenSSH")
	q, err := vUnwire(b)
	vAssert(err == nil, "decode ok")
	r, ok := q.(*sshFxpSymlinkPacket)
	vAssert(ok && r.ID == p.ID && r.Targetpath == p.Targetpath && r.Linkpath == p.Linkpath, "SYMLINK round trip")
	var x sshfx.RequestPacket
	vAssert(x.UnmarshalBinary(b[4:]) == nil, "filexfer decodes main codec bytes")
	xp, ok := x.Request.(*sshfx.SymlinkPacket)
	vAssert(ok && x.RequestID == p.ID && xp.TargetPath == p.Targetpath && xp.LinkPath == p.Linkpath, "SYMLINK cross-codec fields")
	y := sshfx.RequestPacket{RequestID: p.ID, Request: &sshfx.SymlinkPacket{TargetPath: p.Targetpath, LinkPath: p.Linkpath}}
	yb, err := y.MarshalBinary()
	vAssert(err == nil && vBytesEq(yb, b), "SYMLINK cross-codec bytes")
	vEmit("wire", b)
}

func vh_C06_rt_ext_statvfs() {
	p := &sshFxpStatvfsPacket{ID: vNondetU32(), Path: vNondetStringC(vS)}
	b := vWire(p)
	vAssert(vBytesEq(b, refFrame(sshFxpExtended, refStr(refStr(refU32(nil, p.ID), "statvfs@openssh.com"), p.Path))), "statvfs layout per OpenSSH")
	q, err := vUnwire(b)
	vAssert(err == nil, "decode ok")
	e, ok := q.(*sshFxpExtendedPacket)
	vAssert(ok && e.ID == p.ID && e.ExtendedRequest == "statvfs@openssh.com", "extended envelope")
	r, ok := e.SpecificPacket.(*sshFxpExtendedPacketStatVFS)
	vAssert(ok && r.ID == p.ID && r.Path == p.Path, "statvfs round trip")
	yb, err := sshfx.ComposePacket((&openssh.StatVFSExtendedPacket{Path: p.Path}).MarshalPacket(p.ID, nil))
	vAssert(err == nil && vBytesEq(yb, b), "statvfs cross-codec bytes")
	vOnce("RegisterExtensionStatVFS", openssh.RegisterExtensionStatVFS)
	var x sshfx.RequestPacket
	vAssert(x.UnmarshalBinary(b[4:]) == nil, "filexfer decodes main codec bytes")
	xe, ok := x.Request.(*sshfx.ExtendedPacket)
	vAssert(ok && x.RequestID == p.ID && xe.ExtendedRequest == "statvfs@openssh.com", "statvfs cross-codec envelope")
	xp, ok := xe.Data.(*openssh.StatVFSExtendedPacket)
	vAssert(ok && xp.Path == p.Path, "statvfs cross-codec fields")
	vEmit("wire", b)
}

func vh_C06_rt_ext_posixrename() {
	p := &sshFxpPosixRenamePacket{ID: vNondetU32(), Oldpath: vNondetStringC(vS), Newpath: vNondetStringC(vS)}
	b := vWire(p)
	vAssert(vBytesEq(b, refFrame(sshFxpExtended, refStr(refStr(refStr(refU32(nil, p.ID), "posix-rename@openssh.com"), p.Oldpath), p.Newpath))), "posix-rename layout per OpenSSH")
	q, err := vUnwire(b)
	vAssert(err == nil, "decode ok")
	e, ok := q.(*sshFxpExtendedPacket)
	vAssert(ok && e.ID == p.ID, "extended envelope")
	r, ok := e.SpecificPacket.(*sshFxpExtendedPacketPosixRename)
	vAssert(ok && r.ID == p.ID && r.Oldpath == p.Oldpath && r.Newpath == p.Newpath, "posix-rename round trip")
	yb, err := sshfx.ComposePacket((&openssh.POSIXRenameExtendedPacket{OldPath: p.Oldpath, NewPath: p.Newpath}).MarshalPacket(p.ID, nil))
	vAssert(err == nil && vBytesEq(yb, b), "posix-rename cross-codec bytes")
	vOnce("RegisterExtensionPOSIXRename", openssh.RegisterExtensionPOSIXRename)
	var x sshfx.RequestPacket
	vAssert(x.UnmarshalBinary(b[4:]) == nil, "filexfer decodes main codec bytes")
	xe, ok := x.Request.(*sshfx.ExtendedPacket)
	vAssert(ok && x.RequestID == p.ID, "posix-rename cross-codec envelope")
	xp, ok := xe.Data.(*openssh.POSIXRenameExtendedPacket)
	vAssert(ok && xp.OldPath == p.Oldpath && xp.NewPath == p.Newpath, "posix-rename cross-codec fields")
	vEmit("wire", b)
}

func vh_C06_rt_ext_hardlink() {
	p := &sshFxpHardlinkPacket{ID: vNondetU32(), Oldpath: vNondetStringC(vS), Newpath: vNondetStringC(vS)}
	b := vWire(p)
	vAssert(vBytesEq(b, refFrame(sshFxpExtended, refStr(refStr(refStr(refU32(nil, p.ID), "hardlink@openssh.com"), p.Oldpath), p.Newpath))), "hardlink layout per OpenSSH")
	q, err := vUnwire(b)
	vAssert(err == nil, "decode ok")
	e, ok := q.(*sshFxpExtendedPacket)
	vAssert(ok && e.ID == p.ID, "extended envelope")
	r, ok := e.SpecificPacket.(*sshFxpExtendedPacketHardlink)
	vAssert(ok && r.ID == p.ID && r.Oldpath == p.Oldpath && r.Newpath == p.Newpath, "hardlink round trip")
	yb, err := sshfx.ComposePacket((&openssh.HardlinkExtendedPacket{OldPath: p.Oldpath, NewPath: p.Newpath}).MarshalPacket(p.ID, nil))
	vAssert(err == nil && vBytesEq(yb, b), "hardlink cross-codec bytes")
	vOnce("RegisterExtensionHardlink", openssh.RegisterExtensionHardlink)
	var x sshfx.RequestPacket
	vAssert(x.UnmarshalBinary(b[4:]) == nil, "filexfer decodes main codec bytes")
	xe, ok := x.Request.(*sshfx.ExtendedPacket)
	vAssert(ok && x.RequestID == p.ID, "hardlink cross-codec envelope")
	xp, ok := xe.Data.(*openssh.HardlinkExtendedPacket)
	vAssert(ok && xp.OldPath == p.Oldpath && xp.NewPath == p.Newpath, "hardlink cross-codec fields")
	vEmit("wire", b)
}

func vh_C06_rt_ext_fsync() {
	p := &sshFxpFsyncPacket{ID: vNondetU32(), Handle: vNondetStringC(vS)}
	b := vWire(p)
	vAssert(vBytesEq(b, refFrame(sshFxpExtended, refStr(refStr(refU32(nil, p.ID), "fsync@openssh.com"), p.Handle))), "fsync layout per OpenSSH")
	yb, err := sshfx.ComposePacket((&openssh.FSyncExtendedPacket{Handle: p.Handle}).MarshalPacket(p.ID, nil))
	vAssert(err == nil && vBytesEq(yb, b), "fsync cross-codec bytes")
	vOnce("RegisterExtensionFSync", openssh.RegisterExtensionFSync)
	var x sshfx.RequestPacket
	vAssert(x.UnmarshalBinary(b[4:]) == nil, "filexfer decodes main codec bytes")
	xe, ok := x.Request.(*sshfx.ExtendedPacket)
	vAssert(ok && x.RequestID == p.ID && xe.ExtendedRequest == "fsync@openssh.com", "fsync cross-codec envelope")
	xp, ok := xe.Data.(*openssh.FSyncExtendedPacket)
	vAssert(ok && xp.Handle == p.Handle, "fsync cross-codec fields")
	vEmit("wire", b)
}

func vNPairs() int {
	if vThorough() {
		return 3
	}
	return 2
}

func vh_C06_rt_init() {
	p := &sshFxInitPacket{Version: vNondetU32()}
	var xe []*sshfx.ExtensionPair
	n := vChoice(vNPairs() + 1)
	body := refU32(nil, p.Version)
	for i := 0; i < n; i++ {
		e := extensionPair{Name: vNondetStringC(2), Data: vNondetStringC(2)}
		p.Extensions = append(p.Extensions, e)
		xe = append(xe, &sshfx.ExtensionPair{Name: e.Name, Data: e.Data})
		body = refStr(refStr(body, e.Name), e.Data)
	}
	b := vWire(p)
	vAssert(vBytesEq(b, refFrame(sshFxpInit, body)), "INIT layout per draft")
	q, err := vUnwire(b)
	vAssert(err == nil, "decode ok")
	r, ok := q.(*sshFxInitPacket)
	vAssert(ok && r.Version == p.Version && len(r.Extensions) == n, "INIT round trip")
	for i := 0; i < n && i < len(r.Extensions); i++ {
		vAssert(r.Extensions[i].Name == p.Extensions[i].Name && r.Extensions[i].Data == p.Extensions[i].Data, "INIT extension round trip")
	}
	y := sshfx.InitPacket{Version: p.Version, Extensions: xe}
	yb, err := y.MarshalBinary()
	vAssert(err == nil && vBytesEq(yb, b), "INIT cross-codec bytes")
	var x sshfx.InitPacket
	vAssert(x.UnmarshalBinary(b[5:]) == nil, "filexfer decodes main codec bytes")
	vAssert(x.Version == p.Version && len(x.Extensions) == n, "INIT cross-codec fields")
	for i := 0; i < n && i < len(x.Extensions); i++ {
		vAssert(x.Extensions[i].Name == p.Extensions[i].Name && x.Extensions[i].Data == p.Extensions[i].Data, "INIT cross-codec extension")
	}
	vEmit("wire", b)
}

func vh_C06_rt_version() {
	p := &sshFxVersionPacket{Version: vNondetU32()}
	var xe []*sshfx.ExtensionPair
	n := vChoice(vNPairs() + 1)
	body := refU32(nil, p.Version)
	for i := 0; i < n; i++ {
		e := sshExtensionPair{Name: vNondetStringC(2), Data: vNondetStringC(2)}
		p.Extensions = append(p.Extensions, e)
		xe = append(xe, &sshfx.ExtensionPair{Name: e.Name, Data: e.Data})
		body = refStr(refStr(body, e.Name), e.Data)
	}
	b := vWire(p)
	vAssert(vBytesEq(b, refFrame(sshFxpVersion, body)), "VERSION layout per draft")
	y := sshfx.VersionPacket{Version: p.Version, Extensions: xe}
	yb, err := y.MarshalBinary()
	vAssert(err == nil && vBytesEq(yb, b), "VERSION cross-codec bytes")
	var x sshfx.VersionPacket
	vAssert(x.UnmarshalBinary(b[5:]) == nil, "filexfer decodes main codec bytes")
	vAssert(x.Version == p.Version && len(x.Extensions) == n, "VERSION cross-codec fields")
	for i := 0; i < n && i < len(x.Extensions); i++ {
		vAssert(x.Extensions[i].Name == p.Extensions[i].Name && x.Extensions[i].Data == p.Extensions[i].Data, "VERSION cross-codec extension")
	}
	vEmit("wire", b)
}
