//go:build verif

package sftp

import (
	"os"
	"syscall"
	"time"
)

// What the file system reports for a served file is what the client sees:
// os.FileInfo (any size, any mode built from one type, nine permission and
// three special bits, any modification time in seconds, any owner; the three
// ways a FileInfo can carry an owner) -> real STAT / LSTAT / FSTAT handler ->
// wire -> Client.Stat / Lstat / File.Stat.
func vC17Mode() os.FileMode {
	perm := vNondetU32()
	vAssume(perm&^uint32(0o777) == 0)
	fm := os.FileMode(perm)
	switch vChoice(7) {
	case 1:
		fm |= os.ModeDir
	case 2:
		fm |= os.ModeSymlink
	case 3:
		fm |= os.ModeNamedPipe
	case 4:
		fm |= os.ModeSocket
	case 5:
		fm |= os.ModeDevice
	case 6:
		fm |= os.ModeDevice | os.ModeCharDevice
	}
	sp := vNondetU8()
	if sp&1 != 0 {
		fm |= os.ModeSetuid
	}
	if sp&2 != 0 {
		fm |= os.ModeSetgid
	}
	if sp&4 != 0 {
		fm |= os.ModeSticky
	}
	return fm
}

func vh_C17_reported_attrs() {
	vErrKinds = 0
	vEnvReset()
	vLoopRequests = 0
	size := vNondetI64()
	vAssume(size >= 0)
	mode := vC17Mode()
	mtime := int64(vNondetU32())
	uid, gid := vNondetU32(), vNondetU32()
	base := vFI{name: "ignored", size: size, mode: mode, mtime: time.Unix(mtime, 999)}
	owner := true
	switch vChoice(4) {
	case 0:
		base.sys = &syscall.Stat_t{Uid: uid, Gid: gid}
		vStatFI = &base
	case 1:
		vStatFI = &vFIUidGid{vFI: base, uid: uid, gid: gid}
	case 2:
		// both sources, disagreeing: Uid()/Gid() take precedence (documented in
		// fileStatFromInfo; added after seeded change C17-e)
		base.sys = &syscall.Stat_t{Uid: uid + 1, Gid: gid + 1}
		vStatFI = &vFIUidGid{vFI: base, uid: uid, gid: gid}
	default:
		owner = false
		vStatFI = &base
	}
	svr := vNewServer(false, "")
	svr.openFiles["1"] = &vMFile{name: "/d/f"}
	vPeer = vServerPeer(svr)
	c := vPeerClient()
	defer vPeerDone(c)
	var fi os.FileInfo
	var err error
	switch vChoice(3) {
	case 0:
		fi, err = c.Stat("/d/f")
	case 1:
		fi, err = c.Lstat("/d/f")
	default:
		f := &File{c: c, path: "/d/f", handle: "1"}
		fi, err = f.Stat()
	}
	vStatFI = nil
	vAssert(err == nil && fi != nil, "the attributes are delivered")
	vAssert(fi.Name() == "f", "name: the last element of the path asked for")
	vAssert(fi.Size() == size, "size as the file system reports it")
	vAssert(fi.Mode() == mode, "type, permission and special bits as the file system reports them")
	vAssert(fi.IsDir() == mode.IsDir(), "IsDir agrees")
	vAssert(fi.ModTime().Unix() == mtime, "modification time to the second")
	st, ok := fi.Sys().(*FileStat)
	vAssert(ok && st != nil, "Sys() is the *FileStat")
	if ok && owner {
		vAssert(st.UID == uid && st.GID == gid, "owner as the file system reports it")
	}
	if ok {
		vAssert(st.Size == uint64(size) && st.Mtime == uint32(mtime), "FileStat carries the same size and time")
	}
}
