//go:build verif

package sftp

import "os"

// fromFileMode(toFileMode(m)) == m for every wire mode word whose type nibble
// is one of the seven defined ones and whose other bits are within 0o7777.
func vh_C17_wire_roundtrip() {
	m := vNondetU32()
	vAssume(m&^uint32(0o177777) == 0)
	t := m & 0o170000
	vAssume(t == 0o010000 || t == 0o020000 || t == 0o040000 || t == 0o060000 || t == 0o100000 || t == 0o120000 || t == 0o140000)
	fm := toFileMode(m)
	back := fromFileMode(fm)
	vEmit("fm", uint32(fm))
	vEmit("back", back)
	vAssert(back == m, "wire->os->wire identity")
}

// toFileMode(fromFileMode(fm)) == fm for every os.FileMode built from one
// type, nine permission bits and the three special bits.
func vh_C17_os_roundtrip() {
	perm := vNondetU32()
	vAssume(perm&^uint32(0o777) == 0)
	var typ os.FileMode
	switch vChoice(7) {
	case 0:
		typ = 0
	case 1:
		typ = os.ModeDir
	case 2:
		typ = os.ModeSymlink
	case 3:
		typ = os.ModeNamedPipe
	case 4:
		typ = os.ModeSocket
	case 5:
		typ = os.ModeDevice
	case 6:
		typ = os.ModeDevice | os.ModeCharDevice
	}
	fm := os.FileMode(perm) | typ
	if vNondetBool() {
		fm |= os.ModeSetuid
	}
	if vNondetBool() {
		fm |= os.ModeSetgid
	}
	if vNondetBool() {
		fm |= os.ModeSticky
	}
	w := fromFileMode(fm)
	back := toFileMode(w)
	vEmit("w", w)
	vEmit("back", uint32(back))
	vAssert(back == fm, "os->wire->os identity")
	vAssert(isRegular(w) == (typ == 0), "isRegular agrees with type")
}
