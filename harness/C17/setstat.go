//go:build verif

package sftp

import (
	"os"
	"time"
)

// SETSTAT / FSETSTAT on the os-backed server: exactly the attributes whose
// flags are set are applied, with the packet's values, in the fixed order
// size, permissions, owner, times; nothing else is touched.
func vh_C17_setstat_by_flag() {
	vErrKinds = 0
	vEnvReset()
	fs := &FileStat{Size: vNondetU64(), Mode: vNondetU32(), UID: vNondetU32(), GID: vNondetU32(), Atime: vNondetU32(), Mtime: vNondetU32()}
	flags := vNondetU32()
	vAssume(flags&sshFileXferAttrExtended == 0) // extended attributes are not applied by this server
	svr := vNewServer(false, "")
	f := &vMFile{name: "/o", data: []byte{1}}
	svr.openFiles["1"] = f
	byHandle := vNondetBool()
	var pkt requestPacket
	if byHandle {
		pkt = &sshFxpFsetstatPacket{ID: 4, Handle: "1", Flags: flags, Attrs: marshalFileStat(nil, flags, fs)}
	} else {
		pkt = &sshFxpSetstatPacket{ID: 4, Path: "/p", Flags: flags, Attrs: marshalFileStat(nil, flags, fs)}
	}
	r, _, err := vWorkerStep(svr, pkt)
	vAssert(err == nil, "worker continues")
	code, isStatus := vStatusCode(vRespBytes(r))
	vAssert(isStatus && code == sshFxOk, "succeeds when every call succeeds")
	i := 0
	next := func(op string) *vCall {
		if i < len(vEnvLog) && (vEnvLog[i].Op == op || vEnvLog[i].Op == "f."+op) {
			i++
			return &vEnvLog[i-1]
		}
		return nil
	}
	if flags&sshFileXferAttrSize != 0 {
		c := next("Truncate")
		vAssert(c != nil && uint64(c.N1) == fs.Size, "size flag: truncate to the packet's size")
	}
	if flags&sshFileXferAttrPermissions != 0 {
		c := next("Chmod")
		vAssert(c != nil && c.Mode == uint32(toFileMode(fs.Mode)), "permissions flag: chmod to the packet's mode")
	}
	if flags&sshFileXferAttrUIDGID != 0 {
		c := next("Chown")
		vAssert(c != nil && uint32(c.N1) == fs.UID && uint32(c.N2) == fs.GID, "owner flag: chown to the packet's uid/gid")
	}
	if flags&sshFileXferAttrACmodTime != 0 {
		c := next("Chtimes")
		vAssert(c != nil && c.N1 == int64(fs.Atime) && c.N2 == int64(fs.Mtime), "times flag: chtimes to the packet's times")
	}
	vAssert(i == len(vEnvLog), "nothing else is changed")
	vEmit("calls", len(vEnvLog))
}

// the client's setters emit exactly one flag with the right payload
func vh_C17_client_setters() {
	var got []byte
	var gtyp byte
	vPeer = func(typ byte, body []byte) (fxp, []byte) {
		gtyp, got = typ, append([]byte{}, body...)
		return vStatusReply(body[:4], sshFxOk)
	}
	c := vPeerClient()
	defer vPeerDone(c)
	mode := vSymOSMode17()
	uid, gid := vNondetU32(), vNondetU32()
	at, mt := vNondetU32(), vNondetU32()
	size := vNondetU64()
	vAssume(size < 1<<63)
	k := vChoice(4)
	var err error
	switch k {
	case 0:
		err = c.Chmod("/p", mode)
	case 1:
		err = c.Chown("/p", int(uid), int(gid))
	case 2:
		err = c.Chtimes("/p", time.Unix(int64(at), 0), time.Unix(int64(mt), 0))
	case 3:
		err = c.Truncate("/p", int64(size))
	}
	vAssert(err == nil && gtyp == sshFxpSetstat, "one SETSTAT is sent")
	path, rest := vBodyStr(got[4:])
	vAssert(path == "/p" && len(rest) >= 4, "for the path")
	flags := vBE32(rest)
	attrs := rest[4:]
	switch k {
	case 0:
		vAssert(flags == sshFileXferAttrPermissions && len(attrs) == 4 && vBE32(attrs) == toChmodPerm(mode), "Chmod: permissions flag only, POSIX permission bits")
		// permission and special bits survive; nothing but them is sent
		p := vBE32(attrs)
		vAssert(p&0o777 == uint32(mode.Perm()) && (p&s_ISUID != 0) == (mode&os.ModeSetuid != 0) && (p&s_ISGID != 0) == (mode&os.ModeSetgid != 0) && (p&s_ISVTX != 0) == (mode&os.ModeSticky != 0) && p&^uint32(0o7777) == 0, "toChmodPerm keeps permission, setuid, setgid, sticky and nothing else")
	case 1:
		vAssert(flags == sshFileXferAttrUIDGID && len(attrs) == 8 && vBE32(attrs) == uid && vBE32(attrs[4:]) == gid, "Chown: owner flag only, uid then gid")
	case 2:
		vAssert(flags == sshFileXferAttrACmodTime && len(attrs) == 8 && vBE32(attrs) == at && vBE32(attrs[4:]) == mt, "Chtimes: times flag only, atime then mtime")
	case 3:
		vAssert(flags == sshFileXferAttrSize && len(attrs) == 8 && vBE64(attrs) == size, "Truncate: size flag only")
	}
}

func vSymOSMode17() os.FileMode {
	perm := vNondetU32()
	vAssume(perm&^uint32(0o777) == 0)
	fm := os.FileMode(perm)
	sp := vNondetU8()
	fm |= os.FileMode(sp&1) << 23  // ModeSetuid
	fm |= os.FileMode(sp>>1&1) << 22 // ModeSetgid
	fm |= os.FileMode(sp>>2&1) << 20 // ModeSticky
	if vNondetBool() {
		fm |= os.ModeDir
	}
	return fm
}
