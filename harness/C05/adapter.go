//go:build verif

package sftp

import (
	"errors"
	"io"
	"io/fs"
	"os"
	"syscall"
	"time"
)

// reference resolution of a (lexically simple) path against the working directory
func vLocal(workDir, p string) string {
	if workDir != "" && (len(p) == 0 || p[0] != '/') {
		if p == "" {
			return workDir
		}
		return workDir + "/" + p
	}
	return p
}

// protocol -> os adapter: each request type makes exactly the os call the
// draft prescribes, on the locally resolved path(s), and answers with the
// status (or value) of that call
//
//verif:samples 400
func vh_C05_adapter() {
	vErrKinds = 3
	vTape = nil
	vEnvReset()
	wd := ""
	if vNondetBool() {
		wd = "/w"
	}
	p1 := [2]string{"rel", "/abs"}[vChoice(2)]
	p2 := [2]string{"new", "/abs2"}[vChoice(2)]
	svr := vNewServer(false, wd)
	id := vNondetU32()
	var pkt requestPacket
	var want vCall
	k := vChoice(12)
	switch k {
	case 0:
		pkt, want = &sshFxpMkdirPacket{ID: id, Path: p1, Flags: vNondetU32()}, vCall{Op: "Mkdir", P1: vLocal(wd, p1), Mode: 0o755}
	case 1:
		pkt, want = &sshFxpRmdirPacket{ID: id, Path: p1}, vCall{Op: "Remove", P1: vLocal(wd, p1)}
	case 2:
		pkt, want = &sshFxpRemovePacket{ID: id, Filename: p1}, vCall{Op: "Remove", P1: vLocal(wd, p1)}
	case 3:
		pkt, want = &sshFxpRenamePacket{ID: id, Oldpath: p1, Newpath: p2}, vCall{Op: "Rename", P1: vLocal(wd, p1), P2: vLocal(wd, p2)}
	case 4:
		pkt, want = &sshFxpExtendedPacket{ID: id, SpecificPacket: &sshFxpExtendedPacketPosixRename{ID: id, Oldpath: p1, Newpath: p2}}, vCall{Op: "Rename", P1: vLocal(wd, p1), P2: vLocal(wd, p2)}
	case 5:
		pkt, want = &sshFxpExtendedPacket{ID: id, SpecificPacket: &sshFxpExtendedPacketHardlink{ID: id, Oldpath: p1, Newpath: p2}}, vCall{Op: "Link", P1: vLocal(wd, p1), P2: vLocal(wd, p2)}
	case 6:
		pkt, want = &sshFxpSymlinkPacket{ID: id, Targetpath: p1, Linkpath: p2}, vCall{Op: "Symlink", P1: vLocal(wd, p1), P2: vLocal(wd, p2)}
	case 7:
		pkt, want = &sshFxpReadlinkPacket{ID: id, Path: p1}, vCall{Op: "Readlink", P1: vLocal(wd, p1)}
	case 8:
		pkt, want = &sshFxpStatPacket{ID: id, Path: p1}, vCall{Op: "Stat", P1: vLocal(wd, p1)}
	case 9:
		pkt, want = &sshFxpLstatPacket{ID: id, Path: p1}, vCall{Op: "Lstat", P1: vLocal(wd, p1)}
	case 10:
		pkt, want = &sshFxpExtendedPacket{ID: id, SpecificPacket: &sshFxpExtendedPacketStatVFS{ID: id, Path: p1}}, vCall{Op: "Statfs", P1: vLocal(wd, p1)}
	case 11:
		pkt, want = &sshFxpOpendirPacket{ID: id, Path: p1}, vCall{Op: "Stat", P1: vLocal(wd, p1)}
	}
	kn := vKindName(pkt)
	r, _, err := vWorkerStep(svr, pkt)
	vAssert(err == nil, "worker continues")
	vAssert(len(vEnvLog) >= 1, kn+": the os call is made")
	if len(vEnvLog) == 0 {
		return
	}
	g := vEnvLog[0]
	vAssert(g.Op == want.Op, kn+": the os call the draft prescribes")
	vAssert(g.P1 == want.P1 && g.P2 == want.P2, kn+": on the path(s) resolved against the working directory")
	if k == 0 {
		vAssert(g.Mode == want.Mode, "MKDIR: default mode")
	}
	if k != 11 {
		vAssert(len(vEnvLog) == 1, kn+": exactly one os call")
	}
	// the reply is the outcome of that call: error outcomes of the stub give a failure status
	b := vRespBytes(r)
	code, isStatus := vStatusCode(b)
	failed := len(vTape) > 0 && vTape[0] != 0
	if failed {
		vAssert(isStatus && code != sshFxOk, kn+": a failing os call is reported")
	} else if k < 7 {
		vAssert(isStatus && code == sshFxOk, kn+": success is reported")
	}
	vEmit("op", g.Op)
}

// OPEN: flags -> os flags, permissions from the attributes only when flagged
func vh_C05_open_flags() {
	vErrKinds = 0
	vEnvReset()
	svr := vNewServer(false, "")
	pf := vNondetU32()
	perm := vNondetU32()
	withPerm := vNondetBool()
	flags := uint32(0)
	var attrs []byte
	if withPerm {
		flags = sshFileXferAttrPermissions
		attrs = refU32(nil, perm)
	}
	r, _, err := vWorkerStep(svr, &sshFxpOpenPacket{ID: 1, Path: "/f", Pflags: pf, Flags: flags, Attrs: attrs})
	vAssert(err == nil, "worker continues")
	rd, wr := pf&sshFxfRead != 0, pf&sshFxfWrite != 0
	if !rd && !wr {
		code, isStatus := vStatusCode(vRespBytes(r))
		vAssert(isStatus && code != sshFxOk && len(vEnvLog) == 0, "neither read nor write: refused without an os call")
		return
	}
	vAssert(len(vEnvLog) == 1 && vEnvLog[0].Op == "OpenFile" && vEnvLog[0].P1 == "/f", "exactly one OpenFile on the path")
	g := vEnvLog[0]
	acc := os.O_RDONLY
	if rd && wr {
		acc = os.O_RDWR
	} else if wr {
		acc = os.O_WRONLY
	}
	vAssert(g.Flag&(os.O_RDONLY|os.O_WRONLY|os.O_RDWR) == acc, "access mode")
	vAssert((g.Flag&os.O_CREATE != 0) == (pf&sshFxfCreat != 0), "CREAT")
	vAssert((g.Flag&os.O_TRUNC != 0) == (pf&sshFxfTrunc != 0), "TRUNC")
	vAssert((g.Flag&os.O_EXCL != 0) == (pf&sshFxfExcl != 0), "EXCL")
	vAssert(g.Flag&os.O_APPEND == 0, "APPEND is not passed on (offsets come from the client)")
	if withPerm {
		vAssert(g.Mode == uint32(toFileMode(perm)&os.ModePerm), "permissions from the attributes")
	} else {
		vAssert(g.Mode == 0o644, "default permissions")
	}
}

// outcome category end-to-end: for every error an os call can return the
// client sees the category os.IsNotExist / os.IsPermission give for it
func vh_C05_error_category() {
	var base error
	switch vChoice(5) {
	case 0:
		base = syscall.Errno(vNondetU8()) // any errno 0..255
	case 1:
		base = fs.ErrNotExist
	case 2:
		base = fs.ErrPermission
	case 3:
		base = fs.ErrExist
	case 4:
		base = io.ErrUnexpectedEOF
	}
	var e error
	switch vChoice(4) {
	case 0:
		e = base
	case 1:
		e = &os.PathError{Op: "op", Path: "/p", Err: base}
	case 2:
		e = &os.LinkError{Op: "op", Old: "/a", New: "/b", Err: base}
	case 3:
		e = &os.SyscallError{Syscall: "sc", Err: base}
	}
	if en, ok := base.(syscall.Errno); ok && en == 0 {
		return // errno 0 is not an error any os call returns
	}
	b := vRespBytes(statusFromError(3, e))
	got := normaliseError(unmarshalStatus(3, b[5:]))
	switch {
	case os.IsNotExist(e):
		vAssert(errors.Is(got, os.ErrNotExist), "not-exist stays not-exist")
	case os.IsPermission(e):
		vAssert(errors.Is(got, os.ErrPermission), "permission stays permission")
	default:
		vAssert(got != nil && !errors.Is(got, os.ErrNotExist) && !errors.Is(got, os.ErrPermission), "any other failure stays a failure of neither kind")
	}
}

func vOpenChoice() (kind, fl int) {
	kind = vChoice(3)
	if kind != 0 {
		return
	}
	fl = [3]int{os.O_RDONLY, os.O_WRONLY, os.O_RDWR}[vChoice(3)]
	if vNondetBool() {
		fl |= os.O_APPEND
	}
	if vNondetBool() {
		fl |= os.O_CREATE
	}
	if vNondetBool() {
		fl |= os.O_TRUNC
	}
	if vNondetBool() {
		fl |= os.O_EXCL
	}
	if vNondetBool() {
		fl |= os.O_SYNC // not representable in protocol version 3
	}
	return
}

// Client.OpenFile -> wire -> real OPEN handler -> os.OpenFile: the flag word
// package os is given is the caller's (access mode, CREATE, TRUNC, EXCL), with
// O_APPEND left out (documented: the offset is kept by the client); Open and
// Create are OpenFile(O_RDONLY) and OpenFile(O_RDWR|O_CREATE|O_TRUNC).
//
//verif:samples 30
func vh_C05_open_roundtrip() {
	vErrKinds = 0
	vEnvReset()
	vLoopRequests = 0
	svr := vNewServer(false, "")
	vPeer = vServerPeer(svr)
	c := vPeerClient()
	defer vPeerDone(c)
	kind, fl := vOpenChoice()
	var f *File
	var err error
	var want int
	switch kind {
	case 0:
		want = fl &^ (os.O_APPEND | os.O_SYNC)
		f, err = c.OpenFile("/f", fl)
	case 1:
		want = os.O_RDONLY
		f, err = c.Open("/f")
	case 2:
		want = os.O_RDWR | os.O_CREATE | os.O_TRUNC
		f, err = c.Create("/f")
	}
	vAssert(err == nil && f != nil, "the open succeeds")
	n := 0
	for _, g := range vEnvLog {
		if g.Op == "OpenFile" {
			n++
			vAssert(g.P1 == "/f" && g.Flag == want, "package os is given the caller's flags (without O_APPEND)")
			vAssert(g.Mode == 0o644, "default permissions")
		}
	}
	vAssert(n == 1, "exactly one os.OpenFile")
	vAssert(vLoopRequests == 1, "one request")
}

// Client.Chmod / Chown / Chtimes / Truncate and File.Chmod / Chown / Truncate
// -> wire -> real SETSTAT / FSETSTAT handler -> package os: exactly one
// modifying call, the one package os offers under the same name, with the
// caller's values (mode: nine permission bits and setuid/setgid/sticky; times
// to the second).
type vSetattr struct {
	k        int
	m        os.FileMode
	uid, gid uint32
	size     int64
	at, mt   int64
}

func vSetattrChoice() (a vSetattr) {
	a.k = vChoice(7)
	switch a.k {
	case 0, 4:
		perm := vNondetU32()
		vAssume(perm&^uint32(0o777) == 0)
		a.m = os.FileMode(perm)
		sp := vNondetU8()
		if sp&1 != 0 {
			a.m |= os.ModeSetuid
		}
		if sp&2 != 0 {
			a.m |= os.ModeSetgid
		}
		if sp&4 != 0 {
			a.m |= os.ModeSticky
		}
	case 1, 5:
		a.uid, a.gid = vNondetU32(), vNondetU32()
	case 2, 6:
		a.size = vNondetI64()
		vAssume(a.size >= 0)
	case 3:
		a.at, a.mt = int64(vNondetU32()), int64(vNondetU32())
	}
	return
}

//verif:samples 12
func vh_C05_client_setattr() {
	vErrKinds = 0
	vEnvReset()
	vLoopRequests = 0
	svr := vNewServer(false, "")
	svr.openFiles["1"] = &vMFile{name: "/o"}
	vPeer = vServerPeer(svr)
	c := vPeerClient()
	defer vPeerDone(c)
	f := &File{c: c, path: "/o", handle: "1"}
	var err error
	var want vCall
	a := vSetattrChoice()
	k := a.k
	switch k {
	case 0:
		err = c.Chmod("/p", a.m)
		want = vCall{Op: "Chmod", P1: "/p", Mode: uint32(a.m)}
	case 4:
		err = f.Chmod(a.m)
		want = vCall{Op: "f.Chmod", P1: "/o", Mode: uint32(a.m)}
	case 1:
		err = c.Chown("/p", int(a.uid), int(a.gid))
		want = vCall{Op: "Chown", P1: "/p", N1: int64(a.uid), N2: int64(a.gid)}
	case 5:
		err = f.Chown(int(a.uid), int(a.gid))
		want = vCall{Op: "f.Chown", P1: "/o", N1: int64(a.uid), N2: int64(a.gid)}
	case 2:
		err = c.Truncate("/p", a.size)
		want = vCall{Op: "Truncate", P1: "/p", N1: a.size}
	case 6:
		err = f.Truncate(a.size)
		want = vCall{Op: "f.Truncate", P1: "/o", N1: a.size}
	case 3:
		err = c.Chtimes("/p", time.Unix(a.at, 5), time.Unix(a.mt, 7))
		want = vCall{Op: "Chtimes", P1: "/p", N1: a.at, N2: a.mt}
	}
	vAssert(err == nil, "the call succeeds")
	vAssert(vMutations == 1 && len(vEnvLog) == 1, "exactly one os call")
	if len(vEnvLog) == 1 {
		g := vEnvLog[0]
		vAssert(g.Op == want.Op && g.P1 == want.P1, "the os call of the same name, on the path or open file")
		vAssert(g.Mode == want.Mode && g.N1 == want.N1 && g.N2 == want.N2, "with the caller's values")
	}
	vEmit("k", k)
}
