//go:build verif

package sftp

// Native twins of the model-tree harnesses: after the harness itself has run
// on the witness (real client, model peer), the same tree is built twice in
// scratch directories; the real Client talks to the real os-backed Server on
// one copy, package os / path/filepath work on the other, and the two are
// compared - outcome category and resulting tree. The model's own prediction
// is compared with what package os did, which validates the model at every
// replayed witness.

import (
	"fmt"
	"io"
	"os"
	"path"
	"path/filepath"
	"sort"
	"strings"
	"syscall"
	"time"
)

func vRealBuild(t *vTree) string {
	root, err := os.MkdirTemp("", "verif-c05t-")
	if err != nil {
		panic(err)
	}
	names := []string{}
	for _, n := range t.nodes {
		names = append(names, n.name)
	}
	sort.Strings(names) // parents first
	for _, name := range names {
		n := t.nodes[t.find(name)]
		switch n.kind {
		case vKDir:
			os.Mkdir(root+n.name, 0o755)
		case vKFile:
			os.WriteFile(root+n.name, []byte("x"), 0o644)
		case vKLink:
			os.Symlink(root+n.target, root+n.name)
		}
	}
	return root
}

// name -> kind of everything below root (lstat)
func vRealSnap(root string) map[string]int {
	out := map[string]int{}
	filepath.Walk(root, func(p string, fi os.FileInfo, err error) error {
		if err != nil || p == root {
			return nil
		}
		k := vKFile
		switch {
		case fi.Mode()&os.ModeSymlink != 0:
			k = vKLink
		case fi.IsDir():
			k = vKDir
		}
		out[strings.TrimPrefix(p, root)] = k
		return nil
	})
	return out
}

func vModelSnap(t *vTree) map[string]int {
	out := map[string]int{}
	for _, n := range t.nodes {
		if n.kind != vKAbsent {
			out[n.name] = n.kind
		}
	}
	return out
}

func vSnapEq(a, b map[string]int) bool {
	if len(a) != len(b) {
		return false
	}
	for k, v := range a {
		if b[k] != v {
			return false
		}
	}
	return true
}

func vRealCat(err error) int {
	switch {
	case err == nil:
		return vEOK
	case os.IsNotExist(err):
		return vENOENT
	}
	return vENOTDIR
}

func vRealClient(root string) (*Client, func()) {
	cr, sw := io.Pipe()
	sr, cw := io.Pipe()
	svr, err := NewServer(struct {
		io.Reader
		io.WriteCloser
	}{sr, sw}, WithServerWorkingDirectory(root))
	if err != nil {
		panic(err)
	}
	done := make(chan struct{})
	go func() { svr.Serve(); sw.Close(); close(done) }()
	c, err := NewClientPipe(cr, cw)
	if err != nil {
		panic(err)
	}
	return c, func() { c.Close(); <-done }
}

const (
	vOpMkdirAll = iota
	vOpRemoveAll
	vOpRemove
	vOpRmdir
	vOpReadDir
)

// the argument re-rooted in the scratch directory: an absolute one becomes an
// absolute path below it, a relative one stays relative to the server's working
// directory (for package os: relative to the scratch directory, spelled out)
func vRel(root, p string, forOS bool) string {
	if p[0] == '/' || forOS {
		if p[0] != '/' {
			p = "/" + p
		}
		return root + p
	}
	return p
}

func vRealRun(op int, label string) {
	t, p := vTInit, vTArg
	a, b := vRealBuild(t), vRealBuild(t)
	defer os.RemoveAll(a)
	defer os.RemoveAll(b)
	c, closeAll := vRealClient(a)
	defer closeAll()
	model := t.clone()
	if vSfx(p) != "" {
		return // known finding F15: reported by the engine, nothing to validate here
	}
	rel, orel := vRel(a, p, false), vRel(b, p, true)
	var cerr, oerr error
	var mcat int
	switch op {
	case vOpMkdirAll:
		cerr = c.MkdirAll(rel)
		oerr = os.MkdirAll(orel, 0o755)
		mcat = vCat(model.osMkdirAll(p))
	case vOpRemoveAll:
		_, lerr := os.Lstat(orel)
		cerr = c.RemoveAll(rel)
		oerr = os.RemoveAll(orel)
		mcat = vCat(model.osRemoveAll(p))
		if lerr != nil && oerr == nil {
			oerr = lerr // documented difference: the client reports a missing path
		}
	case vOpRemove:
		cerr = c.Remove(rel)
		oerr = os.Remove(orel)
		mcat = vCat(model.remove(p))
	case vOpRmdir:
		cerr = c.RemoveDirectory(rel)
		oerr = os.Remove(orel)
		mcat = vCat(model.remove(p))
	case vOpReadDir:
		got, err := c.ReadDir(rel)
		want, werr := os.ReadDir(orel)
		cerr, oerr = err, werr
		mnames, me := model.readdir(p)
		mcat = vCat(me)
		if err == nil && werr == nil {
			vAssert(len(got) == len(want), label+" (real fs): as many entries as os.ReadDir")
			sort.Slice(got, func(i, j int) bool { return got[i].Name() < got[j].Name() })
			for i := 0; i < len(got) && i < len(want); i++ {
				vAssert(got[i].Name() == want[i].Name() && got[i].IsDir() == want[i].IsDir(), label+" (real fs): same names and kinds as os.ReadDir")
			}
			vAssert(len(mnames) == len(want), label+": the model lists what os.ReadDir lists")
		}
	}
	vAssert(vTCategory(cerr) == vRealCat(oerr), label+" (real fs): same outcome category through Client+Server as package os")
	vAssert(vSnapEq(vRealSnap(a), vRealSnap(b)), label+" (real fs): same resulting tree through Client+Server as package os")
	vAssert(mcat == vRealCat(oerr), label+": the model's outcome category is package os's")
	vAssert(vSnapEq(vModelSnap(model), vRealSnap(b)), label+": the model's resulting tree is package os's")
}

func vt_C05_tree_mkdirall() {
	vh_C05_tree_mkdirall()
	vRealRun(vOpMkdirAll, "MkdirAll")
}

func vt_C05_tree_removeall() {
	vh_C05_tree_removeall()
	vRealRun(vOpRemoveAll, "RemoveAll")
}

func vt_C05_tree_remove() {
	vh_C05_tree_remove()
	if vTFlag {
		vRealRun(vOpRemove, "Remove")
	} else {
		vRealRun(vOpRmdir, "RemoveDirectory")
	}
}

func vt_C05_tree_readdir() {
	vh_C05_tree_readdir()
	vRealRun(vOpReadDir, "ReadDir")
}

func vt_C05_tree_glob() {
	vh_C05_tree_glob()
	t, pat := vTInit, vTArg
	a, b := vRealBuild(t), vRealBuild(t)
	defer os.RemoveAll(a)
	defer os.RemoveAll(b)
	c, closeAll := vRealClient(a)
	defer closeAll()
	got, cerr := c.Glob(a + pat)
	want, oerr := filepath.Glob(b + pat)
	// The standard library's two matchers disagree on malformed patterns of the
	// shape "...*[" / "...*\\" tried against the empty name (path.Match reports
	// them, filepath.Match - filepath.Glob's well-formedness check - does not, and
	// then notices only if a directory gets that far). Client.Glob uses
	// path.Match; such patterns are outside the comparison.
	_, pe := path.Match(b+pat, "")
	_, fe := filepath.Match(b+pat, "")
	if (pe == nil) != (fe == nil) {
		return
	}
	vAssert((cerr == nil) == (oerr == nil), "Glob (real fs): ErrBadPattern exactly when filepath.Glob reports it"+vDbg(pat, cerr, oerr))
	for i := range got {
		got[i] = strings.TrimPrefix(got[i], a)
	}
	for i := range want {
		want[i] = strings.TrimPrefix(want[i], b)
	}
	sort.Strings(got)
	sort.Strings(want)
	vAssert(strings.Join(got, "\n") == strings.Join(want, "\n"), "Glob (real fs): the names filepath.Glob returns")
}

func vDbg(a ...any) string {
	if os.Getenv("VERIF_DEBUG") == "" {
		return ""
	}
	s := " ::"
	for _, x := range a {
		s += " " + strings.ReplaceAll(strings.ReplaceAll(fmt.Sprintf("%q", fmt.Sprint(x)), "\n", " "), "\"", "'")
	}
	return s
}

// twin of vh_C05_open_roundtrip: the chosen open is done through the real
// Client + Server on a scratch directory and with package os on an identical
// one, once with the file present and once with it missing; outcome category
// and the file's resulting existence and content are compared.
func vt_C05_open_roundtrip() {
	kind, fl := vOpenChoice()
	for _, present := range []bool{true, false} {
		a, _ := os.MkdirTemp("", "verif-c05o-")
		b, _ := os.MkdirTemp("", "verif-c05o-")
		if present {
			os.WriteFile(a+"/f", []byte("abc"), 0o644)
			os.WriteFile(b+"/f", []byte("abc"), 0o644)
		}
		c, closeAll := vRealClient(a)
		var cf *File
		var of *os.File
		var cerr, oerr error
		switch kind {
		case 0:
			cf, cerr = c.OpenFile("f", fl)
			of, oerr = os.OpenFile(b+"/f", fl&^os.O_APPEND, 0o644)
		case 1:
			cf, cerr = c.Open("f")
			of, oerr = os.Open(b + "/f")
		case 2:
			cf, cerr = c.Create("f")
			of, oerr = os.Create(b + "/f")
		}
		vAssert(vTCategory(cerr) == vRealCat(oerr), "open (real fs): same outcome category as package os"+vDbg(kind, fl, present, cerr, oerr))
		if cf != nil {
			cf.Close()
		}
		if of != nil {
			of.Close()
		}
		ca, ea := os.ReadFile(a + "/f")
		cb, eb := os.ReadFile(b + "/f")
		vAssert((ea == nil) == (eb == nil) && string(ca) == string(cb), "open (real fs): the file exists / is truncated as with package os"+vDbg(kind, fl, present))
		closeAll()
		os.RemoveAll(a)
		os.RemoveAll(b)
	}
}

// twin of vh_C05_client_setattr: the chosen call through the real Client +
// Server on a scratch file, and package os on an identical one; mode, size,
// modification time and owner of the two files are compared afterwards.
func vt_C05_client_setattr() {
	x := vSetattrChoice()
	if x.size > 1<<20 {
		x.size = 1 << 20 // keep the scratch files small
	}
	if os.Getuid() != 0 && (x.k == 1 || x.k == 5) {
		vEmit("k", x.k)
		return // changing the owner needs privileges
	}
	a, _ := os.MkdirTemp("", "verif-c05s-")
	b, _ := os.MkdirTemp("", "verif-c05s-")
	defer os.RemoveAll(a)
	defer os.RemoveAll(b)
	os.WriteFile(a+"/p", []byte("abc"), 0o644)
	os.WriteFile(b+"/p", []byte("abc"), 0o644)
	c, closeAll := vRealClient(a)
	defer closeAll()
	var cerr, oerr error
	var cf *File
	var of *os.File
	if x.k >= 4 {
		cf, cerr = c.OpenFile("p", os.O_RDWR)
		of, oerr = os.OpenFile(b+"/p", os.O_RDWR, 0)
		if cerr != nil || oerr != nil {
			panic("open")
		}
		defer cf.Close()
		defer of.Close()
	}
	switch x.k {
	case 0:
		cerr, oerr = c.Chmod("p", x.m), os.Chmod(b+"/p", x.m)
	case 4:
		cerr, oerr = cf.Chmod(x.m), of.Chmod(x.m)
	case 1:
		cerr, oerr = c.Chown("p", int(x.uid), int(x.gid)), os.Chown(b+"/p", int(x.uid), int(x.gid))
	case 5:
		cerr, oerr = cf.Chown(int(x.uid), int(x.gid)), of.Chown(int(x.uid), int(x.gid))
	case 2:
		cerr, oerr = c.Truncate("p", x.size), os.Truncate(b+"/p", x.size)
	case 6:
		cerr, oerr = cf.Truncate(x.size), of.Truncate(x.size)
	case 3:
		cerr, oerr = c.Chtimes("p", time.Unix(x.at, 0), time.Unix(x.mt, 0)), os.Chtimes(b+"/p", time.Unix(x.at, 0), time.Unix(x.mt, 0))
	}
	vAssert(vTCategory(cerr) == vRealCat(oerr), "setattr (real fs): same outcome category as package os"+vDbg(x, cerr, oerr))
	fa, ea := os.Lstat(a + "/p")
	fb, eb := os.Lstat(b + "/p")
	if ea != nil || eb != nil {
		panic("lstat")
	}
	vAssert(fa.Mode() == fb.Mode(), "setattr (real fs): same resulting mode as package os"+vDbg(x, fa.Mode(), fb.Mode()))
	vAssert(fa.Size() == fb.Size(), "setattr (real fs): same resulting size as package os")
	if x.k == 3 {
		vAssert(fa.ModTime().Unix() == fb.ModTime().Unix(), "setattr (real fs): same resulting modification time as package os")
	}
	sa, oka := fa.Sys().(*syscall.Stat_t)
	sb, okb := fb.Sys().(*syscall.Stat_t)
	if oka && okb {
		vAssert(sa.Uid == sb.Uid && sa.Gid == sb.Gid, "setattr (real fs): same resulting owner as package os")
	}
	vEmit("k", x.k)
}

func vt_C05_tree_walk() {
	vh_C05_tree_walk()
	t, root := vTInit, vTArg
	a, b := vRealBuild(t), vRealBuild(t)
	defer os.RemoveAll(a)
	defer os.RemoveAll(b)
	c, closeAll := vRealClient(a)
	defer closeAll()
	var got, want []string
	gerr, werr := 0, 0
	w := c.Walk(a + root)
	for w.Step() {
		if w.Err() != nil {
			gerr++
			continue
		}
		got = append(got, strings.TrimPrefix(w.Path(), a))
	}
	filepath.Walk(b+root, func(p string, fi os.FileInfo, err error) error {
		if err != nil {
			werr++
			return nil
		}
		want = append(want, strings.TrimPrefix(p, b))
		return nil
	})
	vAssert(gerr == werr, "Walk (real fs): errors reported as by filepath.Walk"+vDbg(root, gerr, werr))
	// (filepath.Walk sorts each directory; the walker takes the entries in the order the
	// server lists them, as Client.ReadDir does - the same set, parents before children)
	for i, g := range got {
		for _, h := range got[:i] {
			vAssert(!strings.HasPrefix(h, g+"/"), "Walk (real fs): a directory is visited before its contents")
		}
	}
	sort.Strings(got)
	sort.Strings(want)
	vAssert(strings.Join(got, "\n") == strings.Join(want, "\n"), "Walk (real fs): the entries filepath.Walk visits"+vDbg(root, got, want))
}
