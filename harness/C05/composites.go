//go:build verif

package sftp

type vAnsw struct {
	typ  byte
	path string
	ok   bool // status OK / attrs delivered
	dir  bool
}

var vAnswers []vAnsw

// a server that answers every request arbitrarily (within the reply types legal for it)
func vArbitraryServer(typ byte, body []byte) (fxp, []byte) {
	id := body[:4]
	path, _ := vBodyStr(body[4:])
	switch typ {
	case sshFxpStat, sshFxpLstat:
		switch vChoice(3) {
		case 0:
			vAnswers = append(vAnswers, vAnsw{typ, path, true, true})
			return sshFxpAttrs, append(append([]byte{}, id...), 0, 0, 0, 4, 0, 0, 0x41, 0xed) // directory 0755
		case 1:
			vAnswers = append(vAnswers, vAnsw{typ, path, true, false})
			return sshFxpAttrs, append(append([]byte{}, id...), 0, 0, 0, 4, 0, 0, 0x81, 0xa4) // regular 0644
		}
		vAnswers = append(vAnswers, vAnsw{typ, path, false, false})
		return vStatusReply(id, sshFxNoSuchFile)
	case sshFxpOpendir:
		vAnswers = append(vAnswers, vAnsw{typ, path, true, true})
		return sshFxpHandle, append(append([]byte{}, id...), 0, 0, 0, 1, 'h')
	case sshFxpReaddir:
		return vStatusReply(id, sshFxEOF) // empty directories
	case sshFxpClose:
		return vStatusReply(id, sshFxOk)
	}
	code := [3]uint32{sshFxOk, sshFxNoSuchFile, sshFxFailure}[vChoice(3)]
	vAnswers = append(vAnswers, vAnsw{typ, path, code == sshFxOk, false})
	return vStatusReply(id, code)
}

func vAnswered(typ byte, path string, ok, dir bool) bool {
	for _, a := range vAnswers {
		if a.typ == typ && a.path == path && a.ok == ok && (!dir || a.dir) {
			return true
		}
	}
	return false
}

func vh_C05_remove() {
	vAnswers = nil
	vPeer = vArbitraryServer
	c := vPeerClient()
	defer vPeerDone(c)
	err := c.Remove("/x")
	if err == nil {
		vAssert(vAnswered(sshFxpRemove, "/x", true, false) || vAnswered(sshFxpRmdir, "/x", true, false), "Remove succeeds only if the file or the directory removal succeeded")
	} else {
		vAssert(!vAnswered(sshFxpRemove, "/x", true, false), "Remove fails only if the file removal failed")
	}
}

func vh_C05_mkdirall() {
	vAnswers = nil
	vPeer = vArbitraryServer
	c := vPeerClient()
	defer vPeerDone(c)
	err := c.MkdirAll("/a/b")
	// like os.MkdirAll, the existence check follows symbolic links (STAT, not
	// LSTAT): a link to a directory counts as a directory
	vAssert(len(vAnswers) >= 1 && vAnswers[0].typ == sshFxpStat && vAnswers[0].path == "/a/b", "MkdirAll first asks STAT (following links) for the whole path, as os.MkdirAll does")
	if err == nil {
		vAssert(vAnswered(sshFxpStat, "/a/b", true, true) || vAnswered(sshFxpMkdir, "/a/b", true, false) || vAnswered(sshFxpLstat, "/a/b", true, true),
			"MkdirAll succeeds only if the directory exists or its creation succeeded")
	}
	vAssert(len(vAnswers) <= 8, "bounded number of requests")
}

func vh_C05_removeall() {
	vAnswers = nil
	vPeer = vArbitraryServer
	c := vPeerClient()
	defer vPeerDone(c)
	err := c.RemoveAll("/d")
	if err == nil {
		vAssert(vAnswered(sshFxpRemove, "/d", true, false) || vAnswered(sshFxpRmdir, "/d", true, false), "RemoveAll succeeds only if the final removal succeeded")
	}
}
