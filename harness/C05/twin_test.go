//go:build verif

package sftp

import (
	"os"
	"path/filepath"
)

// native twin of vh_C05_adapter: with a working directory set and relative
// paths in the request, the request is served by the real handler on a scratch
// working directory (which is not the process' own directory) and its effect is
// looked for there. Absolute paths would touch the host's root: those cases
// are left to the engine (the twin says so with the emit twin_na).
func vt_C05_adapter() {
	wdSet := vNondetBool()
	i1 := vChoice(2)
	i2 := vChoice(2)
	_ = vNondetU32()
	k := vChoice(12)
	twoPaths := k >= 3 && k <= 6
	if !wdSet || i1 != 0 || (twoPaths && i2 != 0) {
		vEmit("twin_na", 1)
		return
	}
	dir, err := os.MkdirTemp("", "verif-c05-")
	if err != nil {
		panic(err)
	}
	defer os.RemoveAll(dir)
	p1, p2 := filepath.Join(dir, "rel"), filepath.Join(dir, "new")
	exists := func(p string) bool { _, err := os.Lstat(p); return err == nil }
	switch k {
	case 0:
	case 1, 10, 11:
		os.Mkdir(p1, 0o755)
	case 7:
		os.Symlink("tgt", p1)
	default:
		os.WriteFile(p1, []byte("x"), 0o644)
	}
	svr := vNewServer(false, dir)
	var pkt requestPacket
	switch k {
	case 0:
		pkt = &sshFxpMkdirPacket{ID: 1, Path: "rel"}
	case 1:
		pkt = &sshFxpRmdirPacket{ID: 1, Path: "rel"}
	case 2:
		pkt = &sshFxpRemovePacket{ID: 1, Filename: "rel"}
	case 3:
		pkt = &sshFxpRenamePacket{ID: 1, Oldpath: "rel", Newpath: "new"}
	case 4:
		pkt = &sshFxpExtendedPacket{ID: 1, SpecificPacket: &sshFxpExtendedPacketPosixRename{ID: 1, Oldpath: "rel", Newpath: "new"}}
	case 5:
		pkt = &sshFxpExtendedPacket{ID: 1, SpecificPacket: &sshFxpExtendedPacketHardlink{ID: 1, Oldpath: "rel", Newpath: "new"}}
	case 6:
		pkt = &sshFxpSymlinkPacket{ID: 1, Targetpath: "rel", Linkpath: "new"}
	case 7:
		pkt = &sshFxpReadlinkPacket{ID: 1, Path: "rel"}
	case 8:
		pkt = &sshFxpStatPacket{ID: 1, Path: "rel"}
	case 9:
		pkt = &sshFxpLstatPacket{ID: 1, Path: "rel"}
	case 10:
		pkt = &sshFxpExtendedPacket{ID: 1, SpecificPacket: &sshFxpExtendedPacketStatVFS{ID: 1, Path: "rel"}}
	case 11:
		pkt = &sshFxpOpendirPacket{ID: 1, Path: "rel"}
	}
	kn := vKindName(pkt)
	r, _, werr := vWorkerStep(svr, pkt)
	vAssert(werr == nil, "worker continues")
	b := vRespBytes(r)
	label := kn + ": on the path(s) resolved against the working directory"
	code, isStatus := vStatusCode(b)
	switch k {
	case 0:
		vAssert(isStatus && code == sshFxOk && exists(p1), label)
	case 1, 2:
		vAssert(isStatus && code == sshFxOk && !exists(p1), label)
	case 3, 4:
		vAssert(isStatus && code == sshFxOk && !exists(p1) && exists(p2), label)
	case 5, 6:
		vAssert(isStatus && code == sshFxOk && exists(p1) && exists(p2), label)
	case 7:
		vAssert(b[4] == sshFxpName, label)
	case 8, 9:
		vAssert(b[4] == sshFxpAttrs, label)
	case 10:
		vAssert(b[4] == sshFxpExtendedReply, label)
	case 11:
		vAssert(b[4] == sshFxpHandle, label)
	}
	for _, f := range svr.openFiles {
		f.Close()
	}
}
