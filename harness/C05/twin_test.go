//go:build verif

package sftp

import (
	"os"
	"path/filepath"
)

// native twin of vh_C05_adapter: the statvfs case is run against the real
// syscall with a working directory that contains the relative path, while the
// process' own directory does not.
func vt_C05_adapter() {
	wdSet := vNondetBool()
	i1 := vChoice(2)
	_ = vChoice(2)
	_ = vNondetU32()
	k := vChoice(12)
	if k != 10 || !wdSet || i1 != 0 {
		return
	}
	dir, err := os.MkdirTemp("", "verif-c05-")
	if err != nil {
		panic(err)
	}
	defer os.RemoveAll(dir)
	os.Mkdir(filepath.Join(dir, "rel"), 0o755)
	svr := vNewServer(false, dir)
	pkt := &sshFxpExtendedPacket{ID: 1, SpecificPacket: &sshFxpExtendedPacketStatVFS{ID: 1, Path: "rel"}}
	r, _, werr := vWorkerStep(svr, pkt)
	vAssert(werr == nil, "worker continues")
	b := vRespBytes(r)
	vAssert(b[4] == sshFxpExtendedReply, "statvfs@: on the path(s) resolved against the working directory")
}
