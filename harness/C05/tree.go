//go:build verif

package sftp

import (
	"os"
	"path"
)

func vHasSlash(s string) bool {
	for i := 0; i < len(s); i++ {
		if s[i] == '/' {
			return true
		}
	}
	return false
}

func vSplitSlash(s string) []string {
	var out []string
	st := 0
	for i := 0; i <= len(s); i++ {
		if i == len(s) || s[i] == '/' {
			out = append(out, s[st:i])
			st = i + 1
		}
	}
	return out
}

func vSortStrings(a []string) {
	for i := 1; i < len(a); i++ {
		for j := i; j > 0 && a[j] < a[j-1]; j-- {
			a[j], a[j-1] = a[j-1], a[j]
		}
	}
}

// A small file-system model with os semantics (directories, files, symbolic
// links; ENOENT / ENOTDIR / EEXIST / ENOTEMPTY), served over the wire by a
// peer that maps each request to the os call the real Server maps it to (that
// mapping itself is vh_C05_adapter's subject). The client's composite
// operations (MkdirAll, RemoveAll, Remove, ReadDir, Glob) run against it and
// are compared with a direct port of the corresponding package os function
// applied to an identical tree: same final tree, same outcome category.

const (
	vKAbsent = iota
	vKDir
	vKFile
	vKLink
)

const (
	vEOK = iota
	vENOENT
	vENOTDIR
	vEEXIST
	vENOTEMPTY
)

type vTNode struct {
	name   string // canonical absolute path
	kind   int
	target string // canonical absolute path of a non-link (or of nothing: dangling)
}

type vTree struct {
	nodes []vTNode
}

func (t *vTree) clone() *vTree {
	return &vTree{nodes: append([]vTNode{}, t.nodes...)}
}

func (t *vTree) find(name string) int {
	for i := range t.nodes {
		if t.nodes[i].name == name {
			return i
		}
	}
	return -1
}

func (t *vTree) kindOf(name string) int {
	if name == "/" {
		return vKDir
	}
	if i := t.find(name); i >= 0 {
		return t.nodes[i].kind
	}
	return vKAbsent
}

func (t *vTree) set(name string, kind int) {
	if i := t.find(name); i >= 0 {
		t.nodes[i].kind = kind
		return
	}
	t.nodes = append(t.nodes, vTNode{name: name, kind: kind})
}

func (t *vTree) children(dir string) []string {
	var out []string
	pre := dir + "/"
	if dir == "/" {
		pre = "/"
	}
	for _, n := range t.nodes {
		if n.kind != vKAbsent && len(n.name) > len(pre) && n.name[:len(pre)] == pre && !vHasSlash(n.name[len(pre):]) {
			out = append(out, n.name)
		}
	}
	return out
}

func (t *vTree) equal(u *vTree) bool {
	for _, n := range t.nodes {
		if u.kindOf(n.name) != n.kind {
			return false
		}
	}
	for _, n := range u.nodes {
		if t.kindOf(n.name) != n.kind {
			return false
		}
	}
	return true
}

// resolve walks p the way the kernel does: intermediate symbolic links are
// followed, the last one only if follow is set. It returns the canonical name
// of the entry (which may be absent) or an error.
func (t *vTree) resolve(p string, follow bool) (string, int) {
	if len(p) == 0 {
		return "", vENOENT
	}
	if p[0] != '/' {
		p = "/" + p // the server's working directory is the root
	}
	trailing := len(p) > 1 && p[len(p)-1] == '/'
	p = path.Clean(p)
	if p == "/" {
		return "/", vEOK
	}
	comps := vSplitSlash(p[1:])
	cur := ""
	for i, c := range comps {
		last := i == len(comps)-1
		next := cur + "/" + c
		k := t.kindOf(next)
		if k == vKAbsent {
			if last {
				return next, vEOK
			}
			return "", vENOENT
		}
		if k == vKLink && (!last || follow || trailing) {
			next = t.nodes[t.find(next)].target
			k = t.kindOf(next)
			if k == vKAbsent {
				if last {
					return next, vEOK // dangling: the entry it names is absent
				}
				return "", vENOENT
			}
		}
		if !last && k != vKDir {
			return "", vENOTDIR
		}
		cur = next
	}
	if trailing && t.kindOf(cur) != vKDir && t.kindOf(cur) != vKAbsent {
		return "", vENOTDIR
	}
	return cur, vEOK
}

// ---- the os calls, on the model

func (t *vTree) stat(p string, follow bool) (int, int) {
	n, e := t.resolve(p, follow)
	if e != vEOK {
		return vKAbsent, e
	}
	k := t.kindOf(n)
	if k == vKAbsent {
		return vKAbsent, vENOENT
	}
	return k, vEOK
}

func (t *vTree) mkdir(p string) int {
	n, e := t.resolve(p, false)
	if e != vEOK {
		return e
	}
	if t.kindOf(n) != vKAbsent {
		return vEEXIST
	}
	t.set(n, vKDir)
	return vEOK
}

// os.Remove: unlink, or rmdir of an empty directory
func (t *vTree) remove(p string) int {
	n, e := t.resolve(p, false)
	if e != vEOK {
		return e
	}
	switch t.kindOf(n) {
	case vKAbsent:
		return vENOENT
	case vKDir:
		if n == "/" || len(t.children(n)) > 0 {
			return vENOTEMPTY
		}
	}
	t.set(n, vKAbsent)
	return vEOK
}

func (t *vTree) readdir(p string) ([]string, int) {
	n, e := t.resolve(p, true)
	if e != vEOK {
		return nil, e
	}
	switch t.kindOf(n) {
	case vKAbsent:
		return nil, vENOENT
	case vKDir:
		c := t.children(n)
		vSortStrings(c)
		return c, vEOK
	}
	return nil, vENOTDIR
}

// ---- package os's composites, ported onto the model

func (t *vTree) osMkdirAll(p string) int {
	k, e := t.stat(p, true)
	if e == vEOK {
		if k == vKDir {
			return vEOK
		}
		return vENOTDIR
	}
	i := len(p)
	for i > 0 && p[i-1] == '/' {
		i--
	}
	j := i
	for j > 0 && p[j-1] != '/' {
		j--
	}
	if j > 1 {
		if e := t.osMkdirAll(p[:j-1]); e != vEOK {
			return e
		}
	}
	e = t.mkdir(p)
	if e != vEOK {
		if k, e1 := t.stat(p, false); e1 == vEOK && k == vKDir {
			return vEOK
		}
		return e
	}
	return vEOK
}

// os.RemoveAll: never follows a symbolic link; a missing path is the
// documented difference (the client reports it, os does not)
func (t *vTree) osRemoveAll(p string) int {
	// (os.RemoveAll splits off the last element without its trailing slashes and unlinks that)
	for len(p) > 1 && p[len(p)-1] == '/' {
		p = p[:len(p)-1]
	}
	k, e := t.stat(p, false)
	if e != vEOK {
		return e
	}
	if k == vKDir {
		n, _ := t.resolve(p, false)
		for _, c := range t.children(n) {
			if e := t.osRemoveAll(c); e != vEOK {
				return e
			}
		}
	}
	return t.remove(p)
}

// ---- the peer

var (
	vTSrv     *vTree
	vTHandles []string // handle i -> directory (canonical), "" when closed
	vTPos     []int
	vTReqs    int
)

func vTAttrs(id []byte, kind int) (fxp, []byte) {
	return sshFxpAttrs, vTAttrBytes(append([]byte{}, id...), kind)
}

func vTAttrBytes(b []byte, kind int) []byte {
	b = append(b, 0, 0, 0, 4)
	switch kind {
	case vKDir:
		return append(b, 0, 0, 0x41, 0xed)
	case vKLink:
		return append(b, 0, 0, 0xa1, 0xff)
	}
	return append(b, 0, 0, 0x81, 0xa4)
}

func vTStatus(id []byte, e int) (fxp, []byte) {
	switch e {
	case vEOK:
		return vStatusReply(id, sshFxOk)
	case vENOENT:
		return vStatusReply(id, sshFxNoSuchFile)
	}
	return vStatusReply(id, sshFxFailure) // ENOTDIR, EEXIST, ENOTEMPTY: "other failure"
}

func vTreePeer(typ byte, body []byte) (fxp, []byte) {
	id := body[:4]
	vTReqs++
	vAssert(vTReqs < 200, "bounded number of requests")
	p, rest := vBodyStr(body[4:])
	_ = rest
	if typ != sshFxpReaddir && typ != sshFxpClose && len(p) > 0 && p[0] != '/' {
		// toLocalPath: a relative path is joined to the working directory ("/"
		// here) with path.Join, which also cleans it; an absolute one is used as it is
		p = path.Join("/", p)
	}
	t := vTSrv
	switch typ {
	case sshFxpStat, sshFxpLstat:
		k, e := t.stat(p, typ == sshFxpStat)
		if e != vEOK {
			return vTStatus(id, e)
		}
		return vTAttrs(id, k)
	case sshFxpMkdir:
		return vTStatus(id, t.mkdir(p))
	case sshFxpRemove, sshFxpRmdir:
		return vTStatus(id, t.remove(p))
	case sshFxpOpendir:
		n, e := t.resolve(p, true)
		if e == vEOK {
			switch t.kindOf(n) {
			case vKAbsent:
				e = vENOENT
			case vKDir:
			default:
				e = vENOTDIR
			}
		}
		if e != vEOK {
			return vTStatus(id, e)
		}
		vTHandles = append(vTHandles, n)
		vTPos = append(vTPos, 0)
		return sshFxpHandle, append(append([]byte{}, id...), 0, 0, 0, 1, byte('0'+len(vTHandles)-1))
	case sshFxpReaddir:
		h := int(p[0] - '0')
		if len(p) != 1 || h < 0 || h >= len(vTHandles) || vTHandles[h] == "" {
			return vStatusReply(id, sshFxFailure)
		}
		ents, _ := t.readdir(vTHandles[h])
		if vTPos[h] >= len(ents) {
			return vStatusReply(id, sshFxEOF)
		}
		// one entry per batch: every listing of two or more entries spans batches
		e := ents[vTPos[h]]
		vTPos[h]++
		b := append([]byte{}, id...)
		b = append(b, 0, 0, 0, 1)
		b = refStr(b, path.Base(e))
		b = refStr(b, "long")
		b = vTAttrBytes(b, t.kindOf(e))
		return sshFxpName, b
	case sshFxpClose:
		h := int(p[0] - '0')
		if len(p) != 1 || h < 0 || h >= len(vTHandles) || vTHandles[h] == "" {
			return vStatusReply(id, sshFxFailure)
		}
		vTHandles[h] = ""
		return vStatusReply(id, sshFxOk)
	}
	return vStatusReply(id, sshFxOPUnsupported)
}

// vSymTree: every tree over the name universe
//
//	/a  /a/b  /a/b/c  /a/d  /e  /l
//
// /a and /a/b absent, file or directory (children only under directories),
// /a/b/c, /a/d and /e absent, file or (empty) directory, /l absent or a
// symbolic link to /a, to /e or to nothing.
func vSymTree() *vTree {
	t := &vTree{}
	a := vChoice(3)
	t.set("/a", a)
	if a == vKDir {
		b := vChoice(3)
		t.set("/a/b", b)
		if b == vKDir {
			t.set("/a/b/c", vChoice(3))
		}
		t.set("/a/d", vChoice(3))
	}
	t.set("/e", vChoice(3))
	switch vChoice(4) {
	case 1:
		t.nodes = append(t.nodes, vTNode{name: "/l", kind: vKLink, target: "/a"})
	case 2:
		t.nodes = append(t.nodes, vTNode{name: "/l", kind: vKLink, target: "/e"})
	case 3:
		t.nodes = append(t.nodes, vTNode{name: "/l", kind: vKLink, target: "/zz"})
	}
	return t
}

var vTArgs = []string{"/a", "/a/b", "/a/b/c", "/a/d", "/e", "/l", "/l/b", "/l/x", "/a/b/", "a/b", "/a/x/y", "/e/x", "/q", "a/d/"}

// vSfx marks the assertions about a relative argument with a trailing slash:
// the server joins it to its working directory with path.Join, which drops the
// slash, so "file/" names the file where the kernel answers ENOTDIR (known
// finding F15; the separate label keeps it from masking anything else)
func vSfx(p string) string {
	if len(p) > 1 && p[len(p)-1] == '/' {
		if p[0] != '/' {
			return " [relative path with a trailing slash]"
		}
		// os.RemoveAll strips the slash itself before it unlinks (known finding F16)
		return " [absolute path with a trailing slash]"
	}
	return ""
}

func vTCategory(err error) int {
	switch {
	case err == nil:
		return vEOK
	case vErrorsIs(err, os.ErrNotExist):
		return vENOENT
	}
	return vENOTDIR // any other failure
}

func vCat(e int) int {
	if e == vEOK || e == vENOENT {
		return e
	}
	return vENOTDIR
}

// what the last harness run chose (for the native twins in tree_twin_test.go)
var (
	vTInit *vTree
	vTArg  string
	vTFlag bool
)

func vTSetup() (*Client, *vTree) {
	t := vSymTree()
	vTSrv = t.clone()
	vTInit = t.clone()
	vTHandles, vTPos, vTReqs = nil, nil, 0
	vPeer = vTreePeer
	return vPeerClient(), t
}

func vTHandlesClosed() bool {
	for _, h := range vTHandles {
		if h != "" {
			return false
		}
	}
	return true
}

//verif:samples 400
func vh_C05_tree_mkdirall() {
	c, ref := vTSetup()
	defer vPeerDone(c)
	p := vTArgs[vChoice(len(vTArgs))]
	vTArg = p
	err := c.MkdirAll(p)
	want := ref.osMkdirAll(p)
	vAssert(vCat(want) == vTCategory(err), "MkdirAll: same outcome category as os.MkdirAll on an identical tree"+vSfx(p))
	vAssert(vTSrv.equal(ref), "MkdirAll: leaves the tree as os.MkdirAll does"+vSfx(p))
	vEmit("want", want)
}

//verif:samples 400
func vh_C05_tree_removeall() {
	c, ref := vTSetup()
	defer vPeerDone(c)
	p := vTArgs[vChoice(len(vTArgs))]
	vTArg = p
	err := c.RemoveAll(p)
	want := ref.osRemoveAll(p)
	vAssert(vCat(want) == vTCategory(err), "RemoveAll: same outcome category as os.RemoveAll on an identical tree (a missing path is reported: documented)"+vSfx(p))
	vAssert(vTSrv.equal(ref), "RemoveAll: leaves the tree as os.RemoveAll does"+vSfx(p))
	vAssert(vTHandlesClosed(), "every directory handle is closed again")
	vEmit("want", want)
}

//verif:samples 400
func vh_C05_tree_remove() {
	c, ref := vTSetup()
	defer vPeerDone(c)
	p := vTArgs[vChoice(len(vTArgs))]
	vTArg = p
	var err error
	var want int
	vTFlag = vNondetBool()
	if vTFlag {
		err = c.Remove(p)
		want = ref.remove(p)
	} else {
		err = c.RemoveDirectory(p)
		want = ref.remove(p)
	}
	vAssert(vCat(want) == vTCategory(err), "Remove/RemoveDirectory: same outcome category as os.Remove"+vSfx(p))
	vAssert(vTSrv.equal(ref), "Remove/RemoveDirectory: leaves the tree as os.Remove does"+vSfx(p))
}

//verif:samples 400
func vh_C05_tree_readdir() {
	c, ref := vTSetup()
	defer vPeerDone(c)
	p := vTArgs[vChoice(len(vTArgs))]
	vTArg = p
	got, err := c.ReadDir(p)
	want, e := ref.readdir(p)
	vAssert(vCat(e) == vTCategory(err), "ReadDir: same outcome category as os.ReadDir"+vSfx(p))
	if e == vEOK && err == nil {
		vAssert(len(got) == len(want), "ReadDir: as many entries as the directory has")
		if len(got) == len(want) {
			for i := range got {
				vAssert(got[i].Name() == path.Base(want[i]), "ReadDir: the directory's names, in order")
				vAssert(got[i].IsDir() == (ref.kindOf(want[i]) == vKDir), "ReadDir: entry kinds as lstat reports them")
			}
		}
	}
	vAssert(vTSrv.equal(ref), "ReadDir changes nothing")
	vAssert(vTHandlesClosed(), "the directory handle is closed again")
}

// Glob: the definition filepath.Glob follows - the pattern is split at the
// separators, each element is a path.Match pattern for one name, and the result
// is every entry lstat can reach (through directory links too) whose elements
// match one by one. A pattern that is malformed as a whole is ErrBadPattern
// at once.
var vTComps = []string{"a", "b", "c", "d", "e", "l"}

func (t *vTree) candidates(depth int) []string {
	var out []string
	for _, c1 := range vTComps {
		n1 := "/" + c1
		if depth == 1 {
			if _, e := t.stat(n1, false); e == vEOK {
				out = append(out, n1)
			}
			continue
		}
		for _, c2 := range vTComps {
			n2 := n1 + "/" + c2
			if _, e := t.stat(n2, false); e == vEOK {
				out = append(out, n2)
			}
		}
	}
	return out
}

func vContainsAny(s, chars string) bool {
	for i := 0; i < len(s); i++ {
		for j := 0; j < len(chars); j++ {
			if s[i] == chars[j] {
				return true
			}
		}
	}
	return false
}

//verif:redirect strings.ContainsAny vContainsAny
//verif:samples 400
func vh_C05_tree_glob() {
	c, ref := vTSetup()
	defer vPeerDone(c)
	// patterns over the universe with two arbitrary bytes
	x, y := vNondetU8(), vNondetU8()
	vAssume(x != 0 && y != 0 && x != '/' && y != '/')
	// outside the claim: "." and ".." elements (Glob reports the cleaned name
	// where filepath.Glob echoes the pattern)
	vAssume(x != '.' && y != '.')
	// ASCII pattern bytes in both tiers (with both bytes arbitrary - multi-byte and
	// invalid UTF-8 - the exploration did not finish within 35 minutes; that range
	// is outside the claim)
	vAssume(x < 0x80 && y < 0x80)
	var pcs []string
	switch vChoice(5) {
	case 0:
		pcs = []string{string([]byte{x})}
	case 1:
		pcs = []string{"a", string([]byte{x})}
	case 2:
		pcs = []string{string([]byte{x}), string([]byte{y})}
	case 3:
		pcs = []string{"a", string([]byte{x, y})}
	case 4:
		pcs = []string{string([]byte{x, y}), "b"}
	}
	pat := ""
	bad := false
	for _, pc := range pcs {
		pat += "/" + pc
		if _, e := path.Match(pc, ""); e != nil {
			bad = true
		}
	}
	vTArg = pat
	got, err := c.Glob(pat)
	if _, werr := path.Match(pat, ""); werr != nil {
		// malformed as a whole: reported before anything is looked at, as filepath.Glob does
		vAssert(err == ErrBadPattern && len(got) == 0, "Glob: a malformed pattern is reported as ErrBadPattern")
	} else if bad {
		// well-formed as a whole, but an element on its own is not (a class or an
		// escape spanning a separator): both Globs notice only if they get there
		vAssert(err == nil || err == ErrBadPattern, "Glob: only ErrBadPattern is ever returned")
	} else {
		vAssert(err == nil, "Glob: a well-formed pattern gives no error")
		var want []string
		for _, n := range ref.candidates(len(pcs)) {
			ncs := vSplitSlash(n[1:])
			all := true
			for i := range pcs {
				if m, _ := path.Match(pcs[i], ncs[i]); !m {
					all = false
				}
			}
			if all {
				want = append(want, n)
			}
		}
		vAssert(len(got) == len(want), "Glob: as many names as entries match the pattern")
		for _, w := range want {
			in := false
			for _, g := range got {
				in = in || g == w
			}
			vAssert(in, "Glob: every matching entry is returned")
		}
	}
	vAssert(vTSrv.equal(ref), "Glob changes nothing")
	vAssert(vTHandlesClosed(), "every directory handle is closed again")
}

// Walk: the walker visits exactly what filepath.Walk visits on an identical
// tree - the root, then every entry below it, directories before their
// contents, symbolic links reported but not followed - each directory in the
// order the server lists it (the model lists in lexical order, which makes
// this filepath.Walk's order; a real directory is listed in directory order).
func (t *vTree) osWalk(root string, out []string) []string {
	k, e := t.stat(root, false)
	if e != vEOK {
		return out
	}
	n, _ := t.resolve(root, false)
	out = append(out, n)
	if k == vKDir {
		c := t.children(n)
		vSortStrings(c)
		for _, ch := range c {
			out = t.osWalk(ch, out)
		}
	}
	return out
}

//verif:samples 400
func vh_C05_tree_walk() {
	c, ref := vTSetup()
	defer vPeerDone(c)
	root := []string{"/", "/a", "/e", "/l", "/q"}[vChoice(5)]
	vTArg = root
	w := c.Walk(root)
	var got []string
	nerr := 0
	for w.Step() {
		if w.Err() != nil {
			nerr++
			continue
		}
		got = append(got, w.Path())
		vAssert(len(got) < 20, "the walk terminates")
	}
	_, e := ref.stat(root, false)
	if e != vEOK {
		vAssert(len(got) == 0 && nerr == 1, "Walk: a missing root is reported once, nothing is visited")
	} else {
		want := ref.osWalk(root, nil)
		if root == "/l" {
			want = []string{"/l"} // the link itself, spelled as given
		}
		vAssert(nerr == 0, "Walk: no error on a readable tree")
		vAssert(len(got) == len(want), "Walk: visits as many entries as filepath.Walk")
		if len(got) == len(want) {
			for i := range got {
				vAssert(got[i] == want[i], "Walk: the same entries in the same order as filepath.Walk")
			}
		}
	}
	vAssert(vTSrv.equal(ref), "Walk changes nothing")
	vAssert(vTHandlesClosed(), "every directory handle is closed again")
}
