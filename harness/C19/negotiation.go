//go:build verif

package sftp

func vNewHandshakeClient(reply []byte) (*Client, *vBuf) {
	w := &vBuf{}
	c := &Client{clientConn: clientConn{conn: conn{Reader: &vReader{data: reply}, WriteCloser: w},
		inflight: make(map[uint32]chan<- result), closed: make(chan struct{})}, ext: map[string]string{}}
	return c, w
}

// structured handshake replies: any type byte, any version, 0..2 extension
// pairs with arbitrary short names/data, optionally cut short
func vh_C19_recvVersion_structured() {
	typ := vNondetU8()
	version := vNondetU32()
	n := vChoice(3)
	body := refU32(nil, version)
	var names, datas []string
	for i := 0; i < n; i++ {
		nm, d := vNondetStringC(2), vNondetStringC(1)
		names, datas = append(names, nm), append(datas, d)
		body = refStr(refStr(body, nm), d)
	}
	frame := refFrame(typ, body)
	cut := vChoice(len(frame) + 1) // deliver only the first cut bytes... or all
	whole := cut == len(frame)
	c, _ := vNewHandshakeClient(frame[:cut])
	err := c.recvVersion()
	if whole && typ == sshFxpVersion && version == 3 {
		vAssert(err == nil, "a well-formed version-3 reply is accepted")
		// reported == advertised (the last duplicate wins)
		for i := 0; i < n; i++ {
			want := datas[i]
			for j := i + 1; j < n; j++ {
				if names[j] == names[i] {
					want = datas[j]
				}
			}
			got, ok := c.HasExtension(names[i])
			vAssert(ok && got == want, "advertised extension is reported with its data")
		}
		vAssert(len(c.ext) <= n, "nothing is reported that was not advertised")
		probe := vNondetStringC(2)
		_, has := c.HasExtension(probe)
		adv := false
		for i := 0; i < n; i++ {
			adv = adv || names[i] == probe
		}
		vAssert(has == adv, "an extension is reported iff it was advertised")
	} else {
		vAssert(err != nil, "any other, wrong-version, wrong-type or truncated reply fails")
	}
	vEmit("err", err != nil)
}

// reference: a VERSION body after the version word is a sequence of complete
// (name, data) string pairs that ends exactly at the end of the body
func vRefPairsOK(b []byte) bool {
	for len(b) > 0 {
		for k := 0; k < 2; k++ {
			if len(b) < 4 {
				return false
			}
			n := int(vBE32(b))
			if n < 0 || n > len(b)-4 {
				return false
			}
			b = b[4+n:]
		}
	}
	return true
}

// arbitrary handshake bytes: no panic; a session exactly for a complete,
// well-formed VERSION packet announcing version 3 (a body cut inside an
// extension pair is malformed even when the frame length is consistent; added
// after seeded change C19-e)
func vh_C19_recvVersion_bytes() {
	data := vNondetBytesC(20)
	vConsumed(len(data))
	c, _ := vNewHandshakeClient(data)
	err := c.recvVersion()
	wellFormed := false
	if len(data) >= 9 {
		l := int(vBE32(data))
		if l >= 5 && l <= len(data)-4 && data[4] == sshFxpVersion && data[5] == 0 && data[6] == 0 && data[7] == 0 && data[8] == 3 {
			wellFormed = vRefPairsOK(data[9 : 4+l])
		}
	}
	if err == nil {
		vAssert(len(data) >= 9 && data[4] == sshFxpVersion && data[5] == 0 && data[6] == 0 && data[7] == 0 && data[8] == 3, "session only with a VERSION packet announcing version 3")
		vAssert(wellFormed, "session only if the extension list is complete and well-formed")
	} else {
		vAssert(!wellFormed, "a complete, well-formed version-3 reply is accepted")
	}
	vEmit("err", err != nil)
}

var vSupported = [3]string{"hardlink@openssh.com", "posix-rename@openssh.com", "statvfs@openssh.com"}

func vSymExtName() (string, bool) {
	k := vChoice(4)
	if k < 3 {
		return vSupported[k], true
	}
	s := vNondetStringC(2) // anything else (too short to be a supported name)
	return s, false
}

// SetSFTPExtensions: validates all names before swapping; configured ==
// advertised by both servers == reported by the client
func vh_C19_set_extensions() {
	before := sftpExtensions
	n := vChoice(4)
	var names []string
	allOK := true
	for i := 0; i < n; i++ {
		nm, ok := vSymExtName()
		names = append(names, nm)
		allOK = allOK && ok
	}
	err := SetSFTPExtensions(names...)
	if !allOK {
		vAssert(err != nil, "an unsupported name is rejected")
		vAssert(len(sftpExtensions) == len(before), "invalid request changes nothing")
		for i := range before {
			vAssert(sftpExtensions[i] == before[i], "invalid request changes nothing")
		}
		return
	}
	vAssert(err == nil && len(sftpExtensions) == n, "valid request installs the list")
	for i := 0; i < n; i++ {
		vAssert(sftpExtensions[i].Name == names[i], "in the given order")
	}
	// both servers' INIT replies carry exactly that list
	vErrKinds = 0
	svr := vNewServer(false, "")
	r1, _, e1 := vWorkerStep(svr, &sshFxInitPacket{Version: 3})
	rs := vNewRequestServer(Handlers{vH{}, vH{}, vH{}, vH{}}, "/")
	r2, e2 := vRSStep(rs, &sshFxInitPacket{Version: 3})
	vAssert(e1 == nil && e2 == nil, "INIT is answered")
	b1, b2 := vRespBytes(r1), vRespBytes(r2)
	vAssert(vBytesEq(b1, b2), "both servers answer INIT identically")
	// and the client, fed with that reply, reports exactly the configured names
	c, _ := vNewHandshakeClient(b1)
	vAssert(c.recvVersion() == nil, "client accepts the server's VERSION")
	for i := 0; i < 3; i++ {
		_, has := c.HasExtension(vSupported[i])
		conf := false
		for _, nm := range names {
			conf = conf || nm == vSupported[i]
		}
		vAssert(has == conf, "reported == advertised == configured")
	}
	vAssert(len(c.ext) <= n, "nothing else is reported")
	sftpExtensions = before
}

// every advertised extension is actually served by the os-backed server;
// any other extended request is answered OP_UNSUPPORTED and the worker goes on
func vh_C19_served() {
	vErrKinds = 2
	vTape = nil
	vEnvReset()
	ro := vNondetBool() // read-only or not (added after seeded change C19-f)
	svr := vNewServer(ro, "")
	id := vNondetU32()
	var m interface{ MarshalBinary() ([]byte, error) }
	k := vChoice(4)
	switch k {
	case 0:
		m = &sshFxpHardlinkPacket{ID: id, Oldpath: "/a", Newpath: "/b"}
	case 1:
		m = &sshFxpPosixRenamePacket{ID: id, Oldpath: "/a", Newpath: "/b"}
	case 2:
		m = &sshFxpStatvfsPacket{ID: id, Path: "/"}
	case 3:
		m = &sshFxpFsyncPacket{ID: id, Handle: "1"}
	}
	b, _ := m.MarshalBinary()
	if k == 3 && vNondetBool() {
		b[9+4] ^= vNondetU8() | 1 // some other name of the same length
	}
	pkt, err := makePacket(rxPacket{fxp(b[4]), b[5:]})
	if k < 3 {
		vAssert(err == nil, "advertised extension decodes")
	} else {
		vAssert(pkt != nil && err != nil, "unknown extension is flagged")
	}
	r, _, werr := vWorkerStep(svr, pkt)
	vAssert(werr == nil, "the session goes on")
	code, isStatus := vStatusCode(vRespBytes(r))
	if k < 3 {
		vAssert(!(isStatus && code == sshFxOPUnsupported), "advertised extension is served (or refused for being a modification), never 'unsupported'")
		if k == 2 || !ro {
			vAssert(!(isStatus && code == sshFxPermissionDenied) || len(vTape) > 0, "a served extension is not refused")
		}
	} else {
		vAssert(isStatus && code == sshFxOPUnsupported, "any other extended request: operation unsupported")
	}
	vAssert(vRespID(vRespBytes(r)) == id, "answer carries the request id")
}

// File.Sync only sends the fsync request if the server advertised it with data "1"
func vh_C19_sync_guard() {
	vSentLog = nil
	vPeer = func(typ byte, body []byte) (fxp, []byte) {
		vSentLog = append(vSentLog, typ)
		return vStatusReply(body[:4], sshFxOk)
	}
	c := vPeerClient()
	defer vPeerDone(c)
	adv := vNondetBool()
	data := vNondetStringC(2)
	if adv {
		c.ext["fsync@openssh.com"] = data
	}
	f := &File{c: c, path: "/f", handle: "h"}
	err := f.Sync()
	if adv && data == "1" {
		vAssert(err == nil && len(vSentLog) == 1 && vSentLog[0] == sshFxpExtended, "advertised: one extended request")
	} else {
		vAssert(err != nil && len(vSentLog) == 0, "not advertised: nothing is sent")
	}
}

var vSentLog []byte

// The whole constructor (L2: the receive goroutine it starts is interpreted):
// NewClientPipe on arbitrary handshake bytes returns a Client exactly when
// recvVersion accepts them; it has then written exactly one INIT packet
// announcing version 3; on failure the writer is closed and nothing is left
// running; on success the session ends cleanly when the stream does.
func vh_C19_new_client_pipe() {
	n := 14
	if vThorough() {
		n = 20
	}
	data := vNondetBytesC(n)
	vConsumed(len(data))
	w := &vBuf{}
	c, err := NewClientPipe(&vReader{data: data}, w)
	vAssert((c == nil) == (err != nil), "a client or an error, never both or neither")
	wellFormed := len(data) >= 9 && data[4] == sshFxpVersion && data[5] == 0 && data[6] == 0 && data[7] == 0 && data[8] == 3
	if err == nil {
		vAssert(wellFormed, "a session is established only with a VERSION packet announcing version 3")
		vAssert(vBytesEq(w.b, []byte{0, 0, 0, 5, sshFxpInit, 0, 0, 0, 3}), "the client has sent exactly one INIT announcing version 3")
		// the stream ends after the handshake (or goes on with arbitrary bytes):
		// the receiver shuts down, Wait and Close return
		vQuiesce()
		c.Wait()
		c.Close()
		vAssert(w.closed, "the writer is closed with the session")
	} else {
		vAssert(w.closed, "a failed construction closes the writer")
	}
	vEmit("ok", err == nil)
}
