//go:build verif

package sftp

import "io"

func vN() int {
	if vThorough() {
		return 32
	}
	return 24
}

// vChunkReader serves data in reads of at most `chunk` bytes (short reads).
type vChunkReader struct {
	data  []byte
	pos   int
	chunk int
	reads int
}

func (r *vChunkReader) Read(p []byte) (int, error) {
	r.reads++
	if r.pos >= len(r.data) {
		return 0, io.EOF
	}
	q := p
	if len(q) > r.chunk {
		q = q[:r.chunk]
	}
	n := copy(q, r.data[r.pos:])
	r.pos += n
	return n, nil
}

// recvPacket on an arbitrary stream: framing obligations of C08.
func vh_C08_recvPacket() {
	data := vNondetBytesC(vN())
	vConsumed(len(data))
	// short reads: the transport may hand out 1, 3 or all requested bytes per Read
	chunk := [3]int{1, 3, 1 << 20}[vChoice(3)]
	r := &vChunkReader{data: data, chunk: chunk}
	var alloc *allocator
	if vNondetBool() {
		alloc = newAllocator()
	}
	typ, payload, err := recvPacket(r, alloc, 1)
	if len(data) >= 4 {
		length := uint32(data[0])<<24 | uint32(data[1])<<16 | uint32(data[2])<<8 | uint32(data[3])
		if length > maxMsgLength || length == 0 {
			vAssert(err != nil, "oversized or zero-length frame is refused")
			vAssert(r.pos == 4, "refused before the body is read")
		} else if uint64(length) > uint64(len(data)-4) {
			vAssert(err != nil, "declared length exceeding the available bytes is an error, not a short packet")
		} else {
			vAssert(err == nil, "complete frame is accepted")
			vAssert(len(payload) == int(length)-1, "payload has the declared length")
			vAssert(typ == fxp(data[4]), "type byte")
			vAssert(vBytesEq(payload, data[5:4+length]), "payload bytes are the frame's bytes")
		}
	} else {
		vAssert(err != nil, "truncated length field is an error")
	}
	vEmit("err", err != nil)
	vEmit("n", len(payload))
}

// makePacket on an arbitrary type byte and payload.
func vh_C08_makePacket() {
	typ := vNondetU8()
	data := vNondetBytesC(vN())
	if vNondetBool() {
		// as with the allocator: the payload is a sub-slice of a larger, dirty buffer
		big := vHavocBytes(len(data) + 64)
		copy(big, data)
		data = big[:len(data)]
	}
	vConsumed(len(data) + 1)
	pkt, err := makePacket(rxPacket{fxp(typ), data})
	vAssert(vImplies(err == nil, pkt != nil), "a packet or an error")
	vEmit("err", err != nil)
	if err == nil {
		vEmit("id", pkt.id())
		// lazily decoded attribute blocks must also be total
		switch p := pkt.(type) {
		case *sshFxpWritePacket:
			vAssert(int(p.Length) == len(p.Data) && 4+4+len(p.Handle)+8+4+len(p.Data) <= len(data), "WRITE data is backed by the bytes received")
		case *sshFxpOpenPacket:
			p.unmarshalFileStat(p.Flags)
			r := &Request{Flags: p.Flags, Attrs: p.Attrs.([]byte)}
			r.Attributes()
			r.AttrFlags()
			r.Pflags()
		case *sshFxpSetstatPacket:
			p.unmarshalFileStat(p.Flags)
			r := &Request{Flags: p.Flags, Attrs: p.Attrs.([]byte)}
			r.Attributes()
		case *sshFxpFsetstatPacket:
			p.unmarshalFileStat(p.Flags)
		}
	}
}

func vh_C08_unmarshalAttrs() {
	data := vNondetBytesC(vN())
	vConsumed(len(data))
	fs, rest, err := unmarshalAttrs(data)
	vAssert(vImplies(err == nil, fs != nil), "value or error")
	vAssert(len(rest) <= len(data), "never yields more bytes than given")
	vEmit("err", err != nil)
	vEmit("rest", len(rest))
}

func vh_C08_unmarshalFileStat() {
	data := vNondetBytesC(vN())
	flags := vNondetU32()
	vConsumed(len(data) + 4)
	fs, rest, err := unmarshalFileStat(flags, data)
	vAssert(vImplies(err == nil, fs != nil), "value or error")
	vAssert(len(rest) <= len(data), "never yields more bytes than given")
	vEmit("err", err != nil)
}

func vh_C08_extensionPair() {
	data := vNondetBytesC(vN())
	vConsumed(len(data))
	ep, rest, err := unmarshalExtensionPair(data)
	vAssert(vImplies(err == nil, len(ep.Name)+len(ep.Data)+8+len(rest) == len(data)), "consumed exactly two strings")
	vEmit("err", err != nil)
}

func vh_C08_dataPacket() {
	data := vNondetBytesC(vN())
	vConsumed(len(data))
	var p sshFxpDataPacket
	err := p.UnmarshalBinary(data)
	vAssert(vImplies(err == nil, int(p.Length) == len(p.Data) && len(p.Data)+8 <= len(data)), "DATA length is backed by bytes")
	vEmit("err", err != nil)
}

func vh_C08_safePrimitives() {
	data := vNondetBytesC(vN())
	vConsumed(len(data))
	_, r1, e1 := unmarshalUint32Safe(data)
	vAssert((e1 == nil) == (len(data) >= 4), "uint32 needs 4 bytes")
	_, r2, e2 := unmarshalUint64Safe(data)
	vAssert((e2 == nil) == (len(data) >= 8), "uint64 needs 8 bytes")
	s, r3, e3 := unmarshalStringSafe(data)
	vAssert(vImplies(e3 == nil, len(s)+4+len(r3) == len(data)), "string consumes prefix+body")
	vEmit("l", len(r1)+len(r2)+len(r3))
}
