//go:build verif

package sftp

//verif:maxbytes 128

// request types that only read
func vIsReadingType(pkt requestPacket) bool {
	switch p := pkt.(type) {
	case *sshFxInitPacket, *sshFxpLstatPacket, *sshFxpClosePacket, *sshFxpReadPacket, *sshFxpFstatPacket, *sshFxpOpendirPacket,
		*sshFxpReaddirPacket, *sshFxpRealpathPacket, *sshFxpStatPacket, *sshFxpReadlinkPacket:
		return true
	case *sshFxpOpenPacket:
		// an open that asks for nothing but reading
		return p.Pflags&(sshFxfWrite|sshFxfAppend|sshFxfCreat|sshFxfTrunc) == 0
	case *sshFxpExtendedPacket:
		_, ok := p.SpecificPacket.(*sshFxpExtendedPacketStatVFS)
		return ok || p.SpecificPacket == nil
	}
	return false
}

func vTwin(pkt requestPacket) {
	kn := vKindName(pkt)
	vErrKinds = 2
	vTape = nil

	vEnvReset()
	rw := vNewServer(false, "")
	rw.openFiles["1"] = &vMFile{name: "/o", data: []byte{1, 2, 3}, ents: nil}
	rw.handleCount = 1
	r1, _, err1 := vWorkerStep(rw, pkt)
	rwMut, rwWrOpen := vMutations, vWriteOpen
	var b1 []byte
	if err1 == nil {
		b1 = vRespBytes(r1)
	}

	vEnvReset()
	ro := vNewServer(true, "")
	ro.openFiles["1"] = &vMFile{name: "/o", data: []byte{1, 2, 3}, ents: nil}
	ro.handleCount = 1
	r2, _, err2 := vWorkerStep(ro, pkt)
	vAssert(vMutations == 0, kn+": read-only server performs no modifying call")
	vAssert(vWriteOpen == 0, kn+": read-only server opens nothing with write access, create or truncate")
	vAssert((err1 == nil) == (err2 == nil), "worker error behaviour is the same")
	if err2 != nil {
		return
	}
	b2 := vRespBytes(r2)
	vAssert(vRespID(b2) == pkt.id() || b2[4] == sshFxpVersion, "response carries the request id")
	if rwMut > 0 || rwWrOpen > 0 {
		code, isStatus := vStatusCode(b2)
		vAssert(isStatus && code == sshFxPermissionDenied, kn+": modifying request is answered permission-denied")
	} else if vIsReadingType(pkt) {
		vAssert(vBytesEq(b1, b2), kn+": purely reading request is answered as on a read-write server")
	} else {
		code, isStatus := vStatusCode(b2)
		vAssert(vBytesEq(b1, b2) || (isStatus && code == sshFxPermissionDenied), kn+": answered as on a read-write server or denied")
	}
	vEmit("rwmut", rwMut)
	vEmit("resp", b2)
}

// every request type as a typed packet with symbolic fields
func vh_C09_typed() {
	vTwin(vSymRequest(vChoice(vNKinds)))
}

// every request marshalled by the client-side codec and decoded by makePacket:
// covers the type-byte and extended-name dispatch on top of vh_C09_typed
func vh_C09_bytes() {
	vTwin(vBytesRequest())
}

func vBytesRequest() requestPacket {
	id := vNondetU32()
	var m interface{ MarshalBinary() ([]byte, error) }
	k := vChoice(vNKinds)
	switch k {
	case 19:
		m = &sshFxpStatvfsPacket{ID: id, Path: vNondetStringC(vPB())}
	case 20:
		m = &sshFxpPosixRenamePacket{ID: id, Oldpath: vNondetStringC(vPB()), Newpath: vNondetStringC(vPB())}
	case 21:
		m = &sshFxpHardlinkPacket{ID: id, Oldpath: vNondetStringC(vPB()), Newpath: vNondetStringC(vPB())}
	case 22:
		// any other extended name (fsync@ is what the client itself may send)
		if vNondetBool() {
			m = &sshFxpFsyncPacket{ID: id, Handle: "1"}
		} else {
			m = &sshFxpStatvfsPacket{ID: id, Path: "/"}
		}
	default:
		m = vSymRequest(k).(interface{ MarshalBinary() ([]byte, error) })
	}
	b, err := m.MarshalBinary()
	vAssert(err == nil && len(b) >= 5, "request marshals")
	if k == 22 && len(b) > 20 {
		// corrupt one byte of the extension name: an unknown extended request
		b[14] ^= vNondetU8() | 1
	}
	pkt, err := makePacket(rxPacket{fxp(b[4]), b[5:]})
	vAssert(pkt != nil && (err == nil || k == 22), "well-formed request decodes")
	return pkt
}

// sequences: the worker carries nothing over from one request to the next. A
// path-based reading request that follows any other request (refused or
// served) through the same worker invocation is answered exactly as when it
// comes alone - on a read-only server in particular, "purely reading requests
// keep working" after a refused attempt to modify (added after seeded change
// C09-e)
func vh_C09_sequence() {
	vErrKinds = 0
	vTape = nil
	// a deterministic environment, so that two runs of the same request agree
	vStatFI = &vFI{name: "p", size: 7, mode: 0o644, mtime: vEpoch}
	defer func() { vStatFI = nil }()
	a := vSymRequest(vChoice(vNKinds))
	id := vNondetU32()
	var b requestPacket
	switch vChoice(4) {
	case 0:
		b = &sshFxpStatPacket{ID: id, Path: "/p"}
	case 1:
		b = &sshFxpLstatPacket{ID: id, Path: "/p"}
	case 2:
		b = &sshFxpReadlinkPacket{ID: id, Path: "/p"}
	default:
		b = &sshFxpRealpathPacket{ID: id, Path: "/p"}
	}
	ro := vNondetBool()
	run := func(pkts []requestPacket) [][]byte {
		vEnvReset()
		svr := vNewServer(ro, "")
		svr.openFiles["1"] = &vMFile{name: "/o", data: []byte{1, 2, 3}}
		svr.handleCount = 1
		ch := make(chan orderedRequest, 4)
		for _, p := range pkts {
			op := svr.pktMgr.newOrderedRequest(p)
			svr.pktMgr.incomingPacket(op)
			ch <- op
		}
		close(ch)
		err := svr.sftpServerWorker(ch)
		vAssert(err == nil, "worker continues")
		var out [][]byte
		for len(svr.pktMgr.responses) > 0 {
			r := <-svr.pktMgr.responses
			out = append(out, vRespBytes(r.(orderedResponse).responsePacket))
		}
		if ro {
			vAssert(vMutations == 0 && vWriteOpen == 0, "read-only server performs no modifying call")
		}
		return out
	}
	alone := run([]requestPacket{b})
	after := run([]requestPacket{a, b})
	vAssert(len(alone) == 1 && len(after) == 2, "one response per request")
	if len(alone) == 1 && len(after) == 2 {
		vAssert(vBytesEq(alone[0], after[1]), vKindName(b)+" after "+vKindName(a)+": answered as when it comes alone")
		if ro {
			code, isStatus := vStatusCode(after[1])
			vAssert(!(isStatus && code == sshFxPermissionDenied), "a reading request is not refused")
		}
	}
}
