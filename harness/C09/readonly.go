//go:build verif

package sftp

//verif:maxbytes 128

// path string bound
func vPB() int {
	if vThorough() {
		return 2
	}
	return 1
}

// vSymRequest returns a request packet of the k-th kind with symbolic fields.
// Handle-carrying requests name either an open handle ("1") or a bogus one.
func vSymRequest(k int) requestPacket {
	id := vNondetU32()
	h := "1"
	if vNondetBool() {
		h = "9"
	}
	switch k {
	case 0:
		return &sshFxInitPacket{Version: vNondetU32()}
	case 1:
		return &sshFxpLstatPacket{ID: id, Path: vNondetStringC(vPB())}
	case 2:
		return &sshFxpOpenPacket{ID: id, Path: vNondetStringC(vPB()), Pflags: vNondetU32(), Flags: vNondetU32(), Attrs: vNondetBytesC(4)}
	case 3:
		return &sshFxpClosePacket{ID: id, Handle: h}
	case 4:
		return &sshFxpReadPacket{ID: id, Handle: h, Offset: vNondetU64(), Len: uint32(vNondetU8())}
	case 5:
		d := vNondetBytesC(3)
		return &sshFxpWritePacket{ID: id, Handle: h, Offset: uint64(vNondetU8() & 3), Length: uint32(len(d)), Data: d}
	case 6:
		return &sshFxpFstatPacket{ID: id, Handle: h}
	case 7:
		return &sshFxpSetstatPacket{ID: id, Path: vNondetStringC(vPB()), Flags: vNondetU32(), Attrs: vNondetArray(24)}
	case 8:
		return &sshFxpFsetstatPacket{ID: id, Handle: h, Flags: vNondetU32(), Attrs: vNondetArray(24)}
	case 9:
		return &sshFxpOpendirPacket{ID: id, Path: vNondetStringC(vPB())}
	case 10:
		return &sshFxpReaddirPacket{ID: id, Handle: h}
	case 11:
		return &sshFxpRemovePacket{ID: id, Filename: vNondetStringC(vPB())}
	case 12:
		return &sshFxpMkdirPacket{ID: id, Path: vNondetStringC(vPB()), Flags: vNondetU32()}
	case 13:
		return &sshFxpRmdirPacket{ID: id, Path: vNondetStringC(vPB())}
	case 14:
		return &sshFxpRealpathPacket{ID: id, Path: vNondetStringC(vPB())}
	case 15:
		return &sshFxpStatPacket{ID: id, Path: vNondetStringC(vPB())}
	case 16:
		return &sshFxpRenamePacket{ID: id, Oldpath: vNondetStringC(vPB()), Newpath: vNondetStringC(vPB())}
	case 17:
		return &sshFxpReadlinkPacket{ID: id, Path: vNondetStringC(vPB())}
	case 18:
		return &sshFxpSymlinkPacket{ID: id, Targetpath: vNondetStringC(vPB()), Linkpath: vNondetStringC(vPB())}
	case 19:
		return &sshFxpExtendedPacket{ID: id, ExtendedRequest: "statvfs@openssh.com", SpecificPacket: &sshFxpExtendedPacketStatVFS{ID: id, Path: vNondetStringC(vPB())}}
	case 20:
		return &sshFxpExtendedPacket{ID: id, ExtendedRequest: "posix-rename@openssh.com", SpecificPacket: &sshFxpExtendedPacketPosixRename{ID: id, Oldpath: vNondetStringC(vPB()), Newpath: vNondetStringC(vPB())}}
	case 21:
		return &sshFxpExtendedPacket{ID: id, ExtendedRequest: "hardlink@openssh.com", SpecificPacket: &sshFxpExtendedPacketHardlink{ID: id, Oldpath: vNondetStringC(vPB()), Newpath: vNondetStringC(vPB())}}
	default:
		return &sshFxpExtendedPacket{ID: id, ExtendedRequest: vNondetStringC(vPB())}
	}
}

const vNKinds = 23

// vTwin runs pkt through a read-write server and then, with the same
// environment answers, through a read-only server; both start from a table
// holding one file opened earlier (handle "1").
func vKindName(pkt requestPacket) string {
	switch p := pkt.(type) {
	case *sshFxInitPacket:
		return "INIT"
	case *sshFxpLstatPacket:
		return "LSTAT"
	case *sshFxpOpenPacket:
		return "OPEN"
	case *sshFxpClosePacket:
		return "CLOSE"
	case *sshFxpReadPacket:
		return "READ"
	case *sshFxpWritePacket:
		return "WRITE"
	case *sshFxpFstatPacket:
		return "FSTAT"
	case *sshFxpSetstatPacket:
		return "SETSTAT"
	case *sshFxpFsetstatPacket:
		return "FSETSTAT"
	case *sshFxpOpendirPacket:
		return "OPENDIR"
	case *sshFxpReaddirPacket:
		return "READDIR"
	case *sshFxpRemovePacket:
		return "REMOVE"
	case *sshFxpMkdirPacket:
		return "MKDIR"
	case *sshFxpRmdirPacket:
		return "RMDIR"
	case *sshFxpRealpathPacket:
		return "REALPATH"
	case *sshFxpStatPacket:
		return "STAT"
	case *sshFxpRenamePacket:
		return "RENAME"
	case *sshFxpReadlinkPacket:
		return "READLINK"
	case *sshFxpSymlinkPacket:
		return "SYMLINK"
	case *sshFxpExtendedPacket:
		switch p.SpecificPacket.(type) {
		case *sshFxpExtendedPacketStatVFS:
			return "statvfs@"
		case *sshFxpExtendedPacketPosixRename:
			return "posix-rename@"
		case *sshFxpExtendedPacketHardlink:
			return "hardlink@"
		}
		return "EXTENDED(unknown)"
	}
	return "?"
}

// request types that only read
func vIsReadingType(pkt requestPacket) bool {
	switch p := pkt.(type) {
	case *sshFxInitPacket, *sshFxpLstatPacket, *sshFxpClosePacket, *sshFxpReadPacket, *sshFxpFstatPacket, *sshFxpOpendirPacket,
		*sshFxpReaddirPacket, *sshFxpRealpathPacket, *sshFxpStatPacket, *sshFxpReadlinkPacket:
		return true
	case *sshFxpOpenPacket:
		// an open that asks for nothing but reading
		return p.Pflags&(sshFxfWrite|sshFxfAppend|sshFxfCreat|sshFxfTrunc) == 0
	case *sshFxpExtendedPacket:
		_, ok := p.SpecificPacket.(*sshFxpExtendedPacketStatVFS)
		return ok || p.SpecificPacket == nil
	}
	return false
}

func vTwin(pkt requestPacket) {
	kn := vKindName(pkt)
	vErrKinds = 2
	vTape = nil

	vEnvReset()
	rw := vNewServer(false, "")
	rw.openFiles["1"] = &vMFile{name: "/o", data: []byte{1, 2, 3}, ents: nil}
	rw.handleCount = 1
	r1, _, err1 := vWorkerStep(rw, pkt)
	rwMut, rwWrOpen := vMutations, vWriteOpen
	var b1 []byte
	if err1 == nil {
		b1 = vRespBytes(r1)
	}

	vEnvReset()
	ro := vNewServer(true, "")
	ro.openFiles["1"] = &vMFile{name: "/o", data: []byte{1, 2, 3}, ents: nil}
	ro.handleCount = 1
	r2, _, err2 := vWorkerStep(ro, pkt)
	vAssert(vMutations == 0, kn+": read-only server performs no modifying call")
	vAssert(vWriteOpen == 0, kn+": read-only server opens nothing with write access, create or truncate")
	vAssert((err1 == nil) == (err2 == nil), "worker error behaviour is the same")
	if err2 != nil {
		return
	}
	b2 := vRespBytes(r2)
	vAssert(vRespID(b2) == pkt.id() || b2[4] == sshFxpVersion, "response carries the request id")
	if rwMut > 0 || rwWrOpen > 0 {
		code, isStatus := vStatusCode(b2)
		vAssert(isStatus && code == sshFxPermissionDenied, kn+": modifying request is answered permission-denied")
	} else if vIsReadingType(pkt) {
		vAssert(vBytesEq(b1, b2), kn+": purely reading request is answered as on a read-write server")
	} else {
		code, isStatus := vStatusCode(b2)
		vAssert(vBytesEq(b1, b2) || (isStatus && code == sshFxPermissionDenied), kn+": answered as on a read-write server or denied")
	}
	vEmit("rwmut", rwMut)
	vEmit("resp", b2)
}

// every request type as a typed packet with symbolic fields
func vh_C09_typed() {
	vTwin(vSymRequest(vChoice(vNKinds)))
}

// every request marshalled by the client-side codec and decoded by makePacket:
// covers the type-byte and extended-name dispatch on top of vh_C09_typed
func vh_C09_bytes() {
	vTwin(vBytesRequest())
}

func vBytesRequest() requestPacket {
	id := vNondetU32()
	var m interface{ MarshalBinary() ([]byte, error) }
	k := vChoice(vNKinds)
	switch k {
	case 19:
		m = &sshFxpStatvfsPacket{ID: id, Path: vNondetStringC(vPB())}
	case 20:
		m = &sshFxpPosixRenamePacket{ID: id, Oldpath: vNondetStringC(vPB()), Newpath: vNondetStringC(vPB())}
	case 21:
		m = &sshFxpHardlinkPacket{ID: id, Oldpath: vNondetStringC(vPB()), Newpath: vNondetStringC(vPB())}
	case 22:
		// any other extended name (fsync@ is what the client itself may send)
		if vNondetBool() {
			m = &sshFxpFsyncPacket{ID: id, Handle: "1"}
		} else {
			m = &sshFxpStatvfsPacket{ID: id, Path: "/"}
		}
	default:
		m = vSymRequest(k).(interface{ MarshalBinary() ([]byte, error) })
	}
	b, err := m.MarshalBinary()
	vAssert(err == nil && len(b) >= 5, "request marshals")
	if k == 22 && len(b) > 20 {
		// corrupt one byte of the extension name: an unknown extended request
		b[14] ^= vNondetU8() | 1
	}
	pkt, err := makePacket(rxPacket{fxp(b[4]), b[5:]})
	vAssert(pkt != nil && (err == nil || k == 22), "well-formed request decodes")
	return pkt
}
