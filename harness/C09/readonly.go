//go:build verif

package sftp

//verif:maxbytes 128

// request types that only read
func vIsReadingType(pkt requestPacket) bool {
	switch p := pkt.(type) {
	case *sshFxInitPacket, *sshFxpLstatPacket, *sshFxpClosePacket, *sshFxpReadPacket, *sshFxpFstatPacket, *sshFxpOpendirPacket,
		*sshFxpReaddirPacket, *sshFxpRealpathPacket, *sshFxpStatPacket, *sshFxpReadlinkPacket:
		return true
	case *sshFxpOpenPacket:
		// an open that asks for nothing but reading
		return p.Pflags&(sshFxfWrite|sshFxfAppend|sshFxfCreat|sshFxfTrunc) == 0
	case *sshFxpExtendedPacket:
		_, ok := p.SpecificPacket.(*sshFxpExtendedPacketStatVFS)
		return ok || p.SpecificPacket == nil
	}
	return false
}

func vTwin(pkt requestPacket) {
	kn := vKindName(pkt)
	vErrKinds = 2
	vTape = nil

	vEnvReset()
	rw := vNewServer(false, "")
	rw.openFiles["1"] = &vMFile{name: "/o", data: []byte{1, 2, 3}, ents: nil}
	rw.handleCount = 1
	r1, _, err1 := vWorkerStep(rw, pkt)
	rwMut, rwWrOpen := vMutations, vWriteOpen
	var b1 []byte
	if err1 == nil {
		b1 = vRespBytes(r1)
	}

	vEnvReset()
	ro := vNewServer(true, "")
	ro.openFiles["1"] = &vMFile{name: "/o", data: []byte{1, 2, 3}, ents: nil}
	ro.handleCount = 1
	r2, _, err2 := vWorkerStep(ro, pkt)
	vAssert(vMutations == 0, kn+": read-only server performs no modifying call")
	vAssert(vWriteOpen == 0, kn+": read-only server opens nothing with write access, create or truncate")
	vAssert((err1 == nil) == (err2 == nil), "worker error behaviour is the same")
	if err2 != nil {
		return
	}
	b2 := vRespBytes(r2)
	vAssert(vRespID(b2) == pkt.id() || b2[4] == sshFxpVersion, "response carries the request id")
	if rwMut > 0 || rwWrOpen > 0 {
		code, isStatus := vStatusCode(b2)
		vAssert(isStatus && code == sshFxPermissionDenied, kn+": modifying request is answered permission-denied")
	} else if vIsReadingType(pkt) {
		vAssert(vBytesEq(b1, b2), kn+": purely reading request is answered as on a read-write server")
	} else {
		code, isStatus := vStatusCode(b2)
		vAssert(vBytesEq(b1, b2) || (isStatus && code == sshFxPermissionDenied), kn+": answered as on a read-write server or denied")
	}
	vEmit("rwmut", rwMut)
	vEmit("resp", b2)
}

// every request type as a typed packet with symbolic fields
func vh_C09_typed() {
	vTwin(vSymRequest(vChoice(vNKinds)))
}

// every request marshalled by the client-side codec and decoded by makePacket:
// covers the type-byte and extended-name dispatch on top of vh_C09_typed
func vh_C09_bytes() {
	vTwin(vBytesRequest())
}

func vBytesRequest() requestPacket {
	id := vNondetU32()
	var m interface{ MarshalBinary() ([]byte, error) }
	k := vChoice(vNKinds)
	switch k {
	case 19:
		m = &sshFxpStatvfsPacket{ID: id, Path: vNondetStringC(vPB())}
	case 20:
		m = &sshFxpPosixRenamePacket{ID: id, Oldpath: vNondetStringC(vPB()), Newpath: vNondetStringC(vPB())}
	case 21:
		m = &sshFxpHardlinkPacket{ID: id, Oldpath: vNondetStringC(vPB()), Newpath: vNondetStringC(vPB())}
	case 22:
		// any other extended name (fsync@ is what the client itself may send)
		if vNondetBool() {
			m = &sshFxpFsyncPacket{ID: id, Handle: "1"}
		} else {
			m = &sshFxpStatvfsPacket{ID: id, Path: "/"}
		}
	default:
		m = vSymRequest(k).(interface{ MarshalBinary() ([]byte, error) })
	}
	b, err := m.MarshalBinary()
	vAssert(err == nil && len(b) >= 5, "request marshals")
	if k == 22 && len(b) > 20 {
		// corrupt one byte of the extension name: an unknown extended request
		b[14] ^= vNondetU8() | 1
	}
	pkt, err := makePacket(rxPacket{fxp(b[4]), b[5:]})
	vAssert(pkt != nil && (err == nil || k == 22), "well-formed request decodes")
	return pkt
}
