//go:build verif

package sftp

// Native twins of the C09 harnesses: the solver's witness packet is run
// against the real os-backed server code with ReadOnly set, on a scratch
// directory (all paths in the packet are re-rooted there), and the tree is
// compared before and after.

import (
	"syscall"
	"fmt"
	"os"
	"path/filepath"
	"sort"
	"strings"
)

func vSnapshot(root string) string {
	var lines []string
	filepath.Walk(root, func(p string, fi os.FileInfo, err error) error {
		if err != nil {
			return nil
		}
		l := fmt.Sprintf("%s %v %d", strings.TrimPrefix(p, root), fi.Mode(), fi.Size())
		if p != root {
			// attributes are part of the tree's state (the scratch root's own mtime changes when entries are added, which shows up as the entries themselves)
			l += fmt.Sprintf(" mtime=%d", fi.ModTime().UnixNano())
			if st, ok := fi.Sys().(*syscall.Stat_t); ok {
				l += fmt.Sprintf(" uid=%d gid=%d", st.Uid, st.Gid)
			}
		}
		if fi.Mode().IsRegular() {
			b, _ := os.ReadFile(p)
			l += fmt.Sprintf(" %x", b)
		}
		if fi.Mode()&os.ModeSymlink != 0 {
			t, _ := os.Readlink(p)
			l += " -> " + t
		}
		lines = append(lines, l)
		return nil
	})
	sort.Strings(lines)
	return strings.Join(lines, "\n")
}

// vTarget selects what the packet's paths hit in the scratch tree: the
// engine's environment stubs answer arbitrarily, so the twin tries an
// existing file, a missing name and a directory.
var vTarget int

func vReroot(root, p string) string {
	switch vTarget {
	case 0:
		return filepath.Join(root, "f")
	case 1:
		return filepath.Join(root, fmt.Sprintf("n%x", p))
	}
	return filepath.Join(root, "d")
}

func vRerootPacket(root string, pkt requestPacket) {
	switch p := pkt.(type) {
	case *sshFxpLstatPacket:
		p.Path = vReroot(root, p.Path)
	case *sshFxpOpenPacket:
		p.Path = vReroot(root, p.Path)
	case *sshFxpSetstatPacket:
		p.Path = vReroot(root, p.Path)
	case *sshFxpOpendirPacket:
		p.Path = vReroot(root, p.Path)
	case *sshFxpRemovePacket:
		p.Filename = vReroot(root, p.Filename)
	case *sshFxpMkdirPacket:
		p.Path = vReroot(root, p.Path)
	case *sshFxpRmdirPacket:
		p.Path = vReroot(root, p.Path)
	case *sshFxpRealpathPacket:
		p.Path = vReroot(root, p.Path)
	case *sshFxpStatPacket:
		p.Path = vReroot(root, p.Path)
	case *sshFxpRenamePacket:
		p.Oldpath, p.Newpath = vReroot(root, p.Oldpath), vReroot(root, p.Newpath)+"x"
	case *sshFxpReadlinkPacket:
		p.Path = vReroot(root, p.Path)
	case *sshFxpSymlinkPacket:
		p.Targetpath, p.Linkpath = vReroot(root, p.Targetpath), vReroot(root, p.Linkpath)+"x"
	case *sshFxpExtendedPacket:
		switch q := p.SpecificPacket.(type) {
		case *sshFxpExtendedPacketStatVFS:
			q.Path = vReroot(root, q.Path)
		case *sshFxpExtendedPacketPosixRename:
			q.Oldpath, q.Newpath = vReroot(root, q.Oldpath), vReroot(root, q.Newpath)+"x"
		case *sshFxpExtendedPacketHardlink:
			q.Oldpath, q.Newpath = vReroot(root, q.Oldpath), vReroot(root, q.Newpath)+"x"
		}
	}
}

func vRealReadOnlyRun(mk func() requestPacket) {
	pos := vWPos
	for vTarget = 0; vTarget < 3; vTarget++ {
		vWPos = pos // re-read the same witness values for each environment
		vRealReadOnlyRun1(mk())
	}
}

func vRealReadOnlyRun1(pkt requestPacket) {
	kn := vKindName(pkt)
	root, err := os.MkdirTemp("", "verif-c09-")
	if err != nil {
		panic(err)
	}
	defer os.RemoveAll(root)
	os.WriteFile(filepath.Join(root, "f"), []byte("content"), 0o644)
	os.Mkdir(filepath.Join(root, "d"), 0o755)
	os.WriteFile(filepath.Join(root, "o"), []byte{1, 2, 3}, 0o644)
	vRerootPacket(root, pkt)
	svr := vNewServer(true, "")
	of, err := os.OpenFile(filepath.Join(root, "o"), os.O_RDWR, 0)
	if err != nil {
		panic(err)
	}
	svr.openFiles["1"] = of
	svr.handleCount = 1
	defer func() {
		for _, f := range svr.openFiles {
			f.Close()
		}
	}()
	before := vSnapshot(root)
	r, _, werr := vWorkerStep(svr, pkt)
	after := vSnapshot(root)
	vAssert(before == after, kn+": read-only server performs no modifying call")
	if werr == nil && before != after {
		code, isStatus := vStatusCode(vRespBytes(r))
		vAssert(isStatus && code == sshFxPermissionDenied, kn+": modifying request is answered permission-denied")
	}
}

func vt_C09_typed() {
	vRealReadOnlyRun(func() requestPacket { return vSymRequest(vChoice(vNKinds)) })
}

func vt_C09_bytes() {
	vRealReadOnlyRun(vBytesRequest)
}
