//go:build verif

package sftp

import (
	"io"
	"os"
	"syscall"
	"time"
)

func vDirMax() int {
	if vThorough() {
		return 6 // (7 did not finish within the thorough budget)
	}
	return 5
}

// model directory: n entries with arbitrary names (so ".", ".." and
// duplicates occur) and distinguishable attributes
var vModelDirStatT bool

func vOwnerOf(fi os.FileInfo) (uint32, uint32) {
	if x, ok := fi.(FileInfoUidGid); ok {
		return x.Uid(), x.Gid()
	}
	st := fi.Sys().(*syscall.Stat_t)
	return st.Uid, st.Gid
}

func vModelDir() []os.FileInfo {
	n := vChoice(vDirMax() + 1)
	var ents []os.FileInfo
	for i := 0; i < n; i++ {
		name := "x"
		switch vChoice(4) {
		case 0:
			name = "."
		case 1:
			name = ".."
		case 2:
			name = "a"
		}
		// owner and time distinguishable too, uid != gid (added after seeded change C16-d);
		// the owner travels by FileInfoUidGid or by *syscall.Stat_t
		base := vFI{name: name, size: int64(10 + i), mode: 0o644, mtime: vEpoch.Add(time.Duration(i) * time.Second)}
		if vModelDirStatT {
			base.sys = &syscall.Stat_t{Uid: uint32(100 + i), Gid: uint32(200 + i)}
			ents = append(ents, &base)
		} else if i%2 == 1 {
			ents = append(ents, &vFIUidGid{vFI: base, uid: uint32(100 + i), gid: uint32(200 + i)})
		} else {
			// every other entry carries a (short) extended attribute, so that one can
			// be the last of a batch (added after seeded change C16-e)
			ents = append(ents, &vFIExt{vFIUidGid: vFIUidGid{vFI: base, uid: uint32(100 + i), gid: uint32(200 + i)}, ext: []StatExtended{{ExtType: "k", ExtData: string([]byte{byte('0' + i)})}}})
		}
	}
	return ents
}

// vLister honours the ListerAt contract but is otherwise arbitrary: any batch
// length 1..len(buf), EOF together with the last entries or on the next call.
type vLister struct {
	ents  []os.FileInfo
	calls int
}

func (l *vLister) ListAt(fis []os.FileInfo, off int64) (int, error) {
	l.calls++
	rem := len(l.ents) - int(off)
	if off < 0 || rem <= 0 {
		return 0, io.EOF
	}
	max := len(fis)
	if rem < max {
		max = rem
	}
	k := 1 + vChoice(max)
	copy(fis, l.ents[off:int(off)+k])
	if k == rem && vNondetBool() {
		return k, io.EOF
	}
	return k, nil
}

type vListHandler struct {
	vH
	l *vLister
}

func (h vListHandler) Filelist(r *Request) (ListerAt, error) { return h.l, nil }

func vCheckListing(got []os.FileInfo, err error, ents []os.FileInfo) {
	vAssert(err == nil, "listing succeeds")
	var want []os.FileInfo
	for _, e := range ents {
		if e.Name() != "." && e.Name() != ".." {
			want = append(want, e)
		}
	}
	vAssert(len(got) == len(want), "every entry exactly once, dot entries excluded")
	for i := 0; i < len(got) && i < len(want); i++ {
		vAssert(got[i].Name() == want[i].Name() && got[i].Size() == want[i].Size() && got[i].Mode() == want[i].Mode(), "entry and attributes as reported by the server")
		vAssert(got[i].ModTime().Unix() == want[i].ModTime().Unix(), "modification time as reported by the server")
		st, ok := got[i].Sys().(*FileStat)
		uid, gid := vOwnerOf(want[i])
		vAssert(ok && st.UID == uid && st.GID == gid, "owner as reported by the server")
		if x, isExt := want[i].(FileInfoExtendedData); isExt && ok {
			we := x.Extended()
			vAssert(len(st.Extended) == len(we), "extended attributes as reported by the server")
			for j := 0; j < len(we) && j < len(st.Extended); j++ {
				vAssert(st.Extended[j].ExtType == we[j].ExtType && st.Extended[j].ExtData == we[j].ExtData, "extended attributes as reported by the server")
			}
		}
	}
	vAssert(vLoopRequests <= len(ents)+4, "terminates within size+4 requests (opendir, readdirs, EOF, close)")
	vEmit("n", len(got))
}

// client ReadDir <-> real filelist of the request server, MaxFilelist = 2
func vh_C16_reqserver() {
	vHErrKinds = 0
	vHReset()
	vLoopRequests = 0
	MaxFilelist = 2
	vModelDirStatT = false
	ents := vModelDir()
	l := &vLister{ents: ents}
	h := vListHandler{l: l}
	rs := vNewRequestServer(Handlers{FileGet: vH{}, FilePut: vH{}, FileCmd: vH{}, FileList: h}, "/")
	vPeer = vRSPeer(rs)
	c := vPeerClient()
	defer vPeerDone(c)
	got, err := c.ReadDir("/d")
	vCheckListing(got, err, ents)
}

// client ReadDir <-> os-backed READDIR on a model directory whose Readdir(n)
// returns any 1..n next entries and io.EOF at the end
type vDirFile struct {
	vMFile
	dents []os.FileInfo
	pos   int
}

func (d *vDirFile) Readdir(n int) ([]os.FileInfo, error) {
	rem := len(d.dents) - d.pos
	if rem <= 0 {
		return nil, io.EOF
	}
	max := rem
	if n > 0 && n < max {
		max = n
	}
	k := 1 + vChoice(max)
	r := d.dents[d.pos : d.pos+k]
	d.pos += k
	return r, nil
}

var vTheDir *vDirFile

func vOpenDirStub(s *Server, path string, flag int, mode os.FileMode) (file, error) { return vTheDir, nil }

// The server's batch size (the literal 128 in respond) is scaled to 3, so that
// full batches, short batches and several batches all occur with a handful of
// entries; MaxFilelist - the request server's batch size - is arbitrary and must
// not matter here (added after seeded change C16-c).
//
//verif:redirect (*github.com/pkg/sftp.Server).openfile vOpenDirStub
//verif:constoverride (*github.com/pkg/sftp.sshFxpReaddirPacket).respond 128 3
func vh_C16_server() {
	vErrKinds = 0
	vEnvReset()
	vLoopRequests = 0
	MaxFilelist = 2 // smaller than the batch
	if vThorough() {
		MaxFilelist = int64(1 + vChoice(3))
	}
	ents := vModelDir()
	vTheDir = &vDirFile{dents: ents}
	vTheDir.name, vTheDir.dir = "/d", true
	svr := vNewServer(false, "")
	vTape = []int{1} // the Stat stub reports a directory
	vPeer = vServerPeer(svr)
	c := vPeerClient()
	defer vPeerDone(c)
	got, err := c.ReadDir("/d")
	vCheckListing(got, err, ents)
	vAssert(vTheDir.closed == 1, "directory handle closed")
}
