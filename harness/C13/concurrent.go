//go:build verif

package sftp

import (
	"io"
	"os"
)

//verif:atomic-invisible

// concurrent map/reduce paths under a fault plan: packet size 1, three (or
// four) chunks, two workers; the replies are available at once, so the order
// in which the workers see them is the scheduler's choice: every order.

// two chunks; three only where the schedule space finishes (concurrent WriteAt)
func vNChunks() int { return 2 }

func vNChunksW() int {
	if vThorough() {
		return 3
	}
	return 2
}

func vh_C13_readat_conc() {
	l := vNChunks()
	size := 1 + vChoice(l+1)
	content := vNondetArray(size)
	fail := vChoice(l+1) - 1
	c, f, ff := vNewFaultXfer(content, 1, fail)
	defer vPeerDone(c)
	c.disableConcurrentReads = false
	b := make([]byte, l)
	n, err := f.ReadAt(b, 0)
	vAssert(n >= 0 && n <= l, "count within the request")
	vAssert(vBytesEq(b[:n], content[:vMin(n, size)]) && n <= size, "the first n bytes were transferred intact and contiguously")
	failed := fail >= 0 && fail < vMin(l, size+1) && ff.calls > fail
	if fail >= 0 && ff.failOff < int64(vMin(l, size)) && failed {
		vAssert(err != nil && err != io.EOF, "the error of the lowest failing offset is reported")
		vAssert(int64(n) == ff.failOff, "the count stops at the failing offset")
	} else if n < l {
		vAssert(err != nil, "a short count never comes with a nil error")
	}
	vEmit("n", n)
}

func vh_C13_writeat_conc() {
	l := vNChunksW()
	b := vNondetArray(l)
	fail := vChoice(l+1) - 1
	c, f, ff := vNewFaultXfer(nil, 1, fail)
	defer vPeerDone(c)
	c.useConcurrentWrites = true
	n, err := f.WriteAt(b, 0)
	if fail < 0 {
		vAssert(err == nil && n == l && vBytesEq(ff.data, b), "complete transfer")
		return
	}
	vAssert(err != nil, "a failed chunk is reported")
	vAssert(int64(n) == ff.failOff, "the count names the failing offset")
	vAssert(vBytesEq(ff.data[:vMin(n, len(ff.data))], b[:vMin(n, len(ff.data))]), "the first n bytes really moved")
	vEmit("n", n)
}

// a SET of failing chunks, each with its own error: whichever order the chunk
// replies are processed in, the call reports the lowest failing offset and the
// error that belongs to it (added after seeded change C03-e)
func vLowest(mask uint, l int) int {
	for o := 0; o < l; o++ {
		if mask&(1<<uint(o)) != 0 {
			return o
		}
	}
	return -1
}

func vSameFault(err error, off int64) bool {
	want := vFaultCode(off)
	if want == ErrSSHFxPermissionDenied {
		return vErrorsIs(err, os.ErrPermission)
	}
	se, ok := err.(*StatusError)
	return ok && se.Code == sshFxFailure
}

func vh_C13_writeat_conc_set() {
	l := vNChunks() // (three chunks x eight failing sets did not finish within the thorough budget)
	b := vNondetArray(l)
	mask := uint(vChoice(1 << uint(l)))
	c, f, ff := vNewFaultXfer(nil, 1, -1)
	defer vPeerDone(c)
	ff.failMask = mask
	c.useConcurrentWrites = true
	n, err := f.WriteAt(b, 0)
	low := vLowest(mask, l)
	if low < 0 {
		vAssert(err == nil && n == l && vBytesEq(ff.data, b), "complete transfer")
		return
	}
	vAssert(err != nil, "a failed chunk is reported")
	vAssert(n == low, "the count names the lowest failing offset")
	vAssert(vSameFault(err, int64(low)), "the error is the one belonging to the lowest failing offset")
	vAssert(vBytesEq(ff.data[:vMin(n, len(ff.data))], b[:vMin(n, len(ff.data))]), "the first n bytes really moved")
	vEmit("n", n)
}

func vh_C13_readat_conc_set() {
	l := vNChunks()
	content := vNondetArray(l)
	mask := uint(vChoice(1 << uint(l)))
	c, f, ff := vNewFaultXfer(content, 1, -1)
	defer vPeerDone(c)
	ff.failMask = mask
	c.disableConcurrentReads = false
	b := make([]byte, l)
	n, err := f.ReadAt(b, 0)
	low := vLowest(mask, l)
	if low < 0 {
		vAssert(err == nil && n == l && vBytesEq(b, content), "complete transfer")
		return
	}
	vAssert(err != nil && err != io.EOF, "a failed chunk is reported")
	vAssert(n == low, "the count names the lowest failing offset")
	vAssert(vSameFault(err, int64(low)), "the error is the one belonging to the lowest failing offset")
	vAssert(vBytesEq(b[:n], content[:n]), "the first n bytes were transferred intact")
	vEmit("n", n)
}

//verif:unwind 4
//verif:prune-unwind
//verif:tier manual
func vh_C13_writeto_conc() {
	size := 2
	content := vNondetArray(size)
	fail := vChoice(size+1) - 1
	c, f, ff := vNewFaultXfer(content, 1, fail)
	defer vPeerDone(c)
	c.disableConcurrentReads = false
	// the size query does not go through ReadAt
	w := &vBuf{}
	n, err := f.WriteTo(w)
	vAssert(vBytesEq(w.b, content[:vMin(len(w.b), size)]) && int(n) == len(w.b), "what was written out is an intact prefix of the file")
	if fail >= 0 && ff.failOff < int64(size) && ff.calls > fail {
		vAssert(err != nil && err != io.EOF, "the failing chunk's error is reported")
		vAssert(int64(n) <= ff.failOff, "nothing at or beyond the failing offset is delivered")
	} else {
		vAssert(err == nil && int(n) == size, "complete transfer")
	}
	vAssert(f.offset == n, "the File offset marks the end of what was delivered")
	vEmit("n", n)
}

// concurrent ReadFrom under a fault plan: the count is the number of bytes
// consumed from the source, the error is reported, the offset marks the
// lowest failing offset
func vh_C13_readfrom_conc() {
	l := vNChunks()
	src := vNondetArray(l)
	fail := vChoice(l+1) - 1
	c, f, ff := vNewFaultXfer(nil, 1, fail)
	defer vPeerDone(c)
	c.useConcurrentWrites = true
	rd := &vReader{data: src}
	n, err := f.ReadFromWithConcurrency(rd, 2)
	vAssert(n == int64(rd.pos), "ReadFrom's count is the number of bytes consumed from the source")
	if fail < 0 {
		vAssert(err == nil && n == int64(l) && vBytesEq(ff.data, src), "complete transfer")
		vAssert(f.offset == int64(l), "offset advanced by the bytes written")
		return
	}
	vAssert(err != nil, "a failed chunk is reported")
	vAssert(f.offset == ff.failOff, "the File offset marks the lowest failing offset")
	vAssert(vBytesEq(ff.data[:vMin(int(f.offset), len(ff.data))], src[:vMin(int(f.offset), len(ff.data))]), "the prefix below the offset really moved")
}
