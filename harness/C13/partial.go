//go:build verif

package sftp

import (
	"io"
)

// Fault plan: the served file fails the k-th chunk (ReadAt/WriteAt call) with
// a failure status; everything else succeeds.

type vFaultFile struct {
	vMFile
	failCall int // index of the ReadAt/WriteAt call that fails (-1: none)
	calls    int
	failOff  int64
	failMask uint // set of failing offsets (bit o: every call at offset o fails, with vFaultCode(o))
}

// distinguishable errors for a set of failing offsets
func vFaultCode(off int64) error {
	if off%2 == 0 {
		return ErrSSHFxFailure
	}
	return ErrSSHFxPermissionDenied
}

func (f *vFaultFile) ReadAt(b []byte, off int64) (int, error) {
	k := f.calls
	f.calls++
	if off < 8 && f.failMask&(1<<uint(off)) != 0 {
		return 0, vFaultCode(off)
	}
	if k == f.failCall {
		f.failOff = off
		return 0, ErrSSHFxFailure
	}
	return f.vMFile.ReadAt(b, off)
}

func (f *vFaultFile) WriteAt(b []byte, off int64) (int, error) {
	k := f.calls
	f.calls++
	if off < 8 && f.failMask&(1<<uint(off)) != 0 {
		return 0, vFaultCode(off)
	}
	if k == f.failCall {
		f.failOff = off
		return 0, ErrSSHFxFailure
	}
	return f.vMFile.WriteAt(b, off)
}

func vNewFaultXfer(content []byte, p int, failCall int) (*Client, *File, *vFaultFile) {
	vErrKinds, vHErrKinds = 0, 0
	vEnvReset()
	svr := vNewServer(false, "")
	ff := &vFaultFile{failCall: failCall}
	ff.name, ff.data = "/o", append([]byte{}, content...)
	svr.openFiles["1"] = ff
	vPeer = vServerPeer(svr)
	c := vPeerClient()
	c.maxPacket, c.maxConcurrentRequests = p, 2
	c.disableConcurrentReads, c.useConcurrentWrites, c.useFstat = true, false, true
	return c, &File{c: c, path: "/o", handle: "1"}, ff
}

// sequential reads: count names an intact prefix, error is the failing chunk's
func vh_C13_read_seq() {
	p := 1 + vChoice(2)
	size := vChoice(3*p + 2)
	content := vNondetArray(size)
	l := vChoice(3*p + 2)
	fail := vChoice(5) - 1 // -1: no failure
	c, f, ff := vNewFaultXfer(content, p, fail)
	defer vPeerDone(c)
	b := make([]byte, l)
	var n int
	var err error
	if vNondetBool() {
		n, err = f.ReadAt(b, 0)
	} else {
		w := &vBuf{}
		var n64 int64
		n64, err = f.WriteTo(w)
		n = int(n64)
		b = w.b
		l = size
	}
	vAssert(n >= 0 && n <= len(b) || n <= l, "count within the request")
	vAssert(vBytesEq(b[:vMin(n, len(b))], content[:vMin(vMin(n, len(b)), size)]), "the first n bytes were transferred intact and contiguously")
	failed := fail >= 0 && ff.calls > fail
	if failed {
		vAssert(err != nil && err != io.EOF, "a failed chunk is reported, and not as EOF")
		vAssert(int64(n) == ff.failOff, "the count stops at the failing offset")
	} else if n < l {
		vAssert(err == io.EOF || (err == nil && n == size), "a short count never comes with a nil error, EOF only at the true end")
		vAssert(n == vMin(l, size), "EOF is reported only at the true end of the file")
	} else {
		vAssert(err == nil, "complete transfer")
	}
	vEmit("n", n)
}

// sequential writes incl. ReadFrom: the count is the prefix that really moved
func vh_C13_write_seq() {
	p := 1 + vChoice(2)
	content := vNondetArray(vChoice(2))
	l := vChoice(3*p + 2)
	b := vNondetArray(l)
	fail := vChoice(5) - 1
	c, f, ff := vNewFaultXfer(content, p, fail)
	defer vPeerDone(c)
	var n int
	var err error
	mode := vChoice(3)
	switch mode {
	case 0:
		n, err = f.WriteAt(b, 0)
	case 1:
		n, err = f.Write(b)
	case 2:
		var n64 int64
		n64, err = f.ReadFrom(&vPlainReader{vReader{data: b}})
		n = int(n64)
	}
	failed := fail >= 0 && ff.calls > fail
	if !failed {
		vAssert(err == nil && n == l, "complete transfer")
		vAssert(vBytesEq(ff.data[:vMin(l, len(ff.data))], b) || l == 0, "all bytes stored")
		return
	}
	vAssert(err != nil, "a failed chunk is reported: a short transfer never comes with a nil error")
	if mode == 2 {
		// ReadFrom: count = bytes consumed from the source; the File offset marks the intact prefix
		vAssert(int64(n) >= f.offset, "ReadFrom's count covers at least the stored prefix")
		vAssert(f.offset == ff.failOff, "the File offset marks the end of the intact prefix")
	} else {
		vAssert(int64(n) == ff.failOff, "the count stops at the failing offset")
	}
	stored := int(ff.failOff)
	vAssert(vBytesEq(ff.data[:vMin(stored, len(ff.data))], b[:vMin(stored, l)]), "the first n bytes really moved")
	vEmit("n", n)
}
