//go:build verif

package sftp

import (
	"io"
	"io/fs"
	"os"
	"sync"
)

// The premise the concurrent harnesses rest on: a single-packet operation of
// the client is ONE request at the server. A read within the file's extent of
// up to one client packet (32768 bytes, also the smallest transmit limit
// WithMaxTxPacket admits) is answered in full by one DATA reply - a short reply
// makes File.ReadAt complete the read with a second request, which is no longer
// one atomic step (added after seeded change C15-b).

// vSizedFile: a file of a given (virtual) size; content does not matter here
type vSizedFile struct {
	size  int64
	reads int
}

func (f *vSizedFile) count(b []byte, off int64) (int, error) {
	f.reads++
	if off < 0 || off >= f.size {
		return 0, io.EOF
	}
	n := int64(len(b))
	if n > f.size-off {
		return int(f.size - off), io.EOF
	}
	return int(n), nil
}
func (f *vSizedFile) Stat() (os.FileInfo, error)               { return &vFI{name: "f", size: f.size}, nil }
func (f *vSizedFile) ReadAt(b []byte, off int64) (int, error)  { return f.count(b, off) }
func (f *vSizedFile) WriteAt(b []byte, off int64) (int, error) { return len(b), nil }
func (f *vSizedFile) Readdir(int) ([]os.FileInfo, error)       { return nil, io.EOF }
func (f *vSizedFile) Name() string                             { return "/o" }
func (f *vSizedFile) Truncate(int64) error                     { return nil }
func (f *vSizedFile) Chmod(mode fs.FileMode) error             { return nil }
func (f *vSizedFile) Chown(uid, gid int) error                 { return nil }
func (f *vSizedFile) Close() error                             { return nil }

func vh_C15_read_one_request() {
	vErrKinds = 0
	maxTx := vNondetU32()
	vAssume(maxTx >= 32768 && maxTx <= 1<<20) // what WithMaxTxPacket admits (larger: see C18's differential harness)
	rlen := vNondetU32()
	vAssume(rlen >= 1 && rlen <= 32768) // one client packet
	off := uint64(vNondetU32())
	size := int64(vNondetU32())
	vAssume(off+uint64(rlen) <= uint64(size)) // within the extent
	pkt := &sshFxpReadPacket{ID: vNondetU32(), Handle: "1", Offset: off, Len: rlen}
	withAlloc := vNondetBool()
	var alloc *allocator
	if withAlloc {
		alloc = newAllocator()
	}
	f := &vSizedFile{size: size}
	var r responsePacket
	vEnvReset()
	vHReset()
	if vNondetBool() {
		s := vNewRequestServer(Handlers{vH{}, vH{}, vH{}, vH{}}, "/")
		s.maxTxPacket, s.pktMgr.alloc = maxTx, alloc
		req, _ := vOpenRequestOfKind(s, 0)
		req.readerAt = f
		var err error
		r, err = vRSStep(s, pkt)
		vAssert(err == nil, "worker continues")
	} else {
		s := vNewServer(false, "")
		s.maxTxPacket, s.pktMgr.alloc = maxTx, alloc
		s.openFiles["1"] = f
		var err error
		r, _, err = vWorkerStep(s, pkt)
		vAssert(err == nil, "worker continues")
	}
	d, ok := r.(*sshFxpDataPacket)
	vAssert(ok, "a read within the extent is answered with DATA")
	if ok {
		vAssert(d.Length == rlen && len(d.Data) >= int(rlen), "one reply carries the whole single-packet read")
		vAssert(d.ID == pkt.ID, "reply carries the request id")
	}
	vAssert(f.reads == 1, "one ReadAt on the backing store")
}

// client side of the same premise: ReadAt/WriteAt of up to maxPacket bytes is
// one request when the peer answers it in full
var vC15Reqs int

func vC15Peer(typ byte, body []byte) (fxp, []byte) {
	id := body[:4]
	vC15Reqs++
	if typ == sshFxpRead {
		_, rest := vBodyStr(body[4:])
		n := vBE32(rest[8:])
		return sshFxpData, append(append(append([]byte{}, id...), byte(n>>24), byte(n>>16), byte(n>>8), byte(n)), make([]byte, n)...)
	}
	return vStatusReply(id, sshFxOk)
}

func vh_C15_client_one_request() {
	vPeer = vC15Peer
	c := vPeerClient()
	defer vPeerDone(c)
	c.maxPacket = 1 + vChoice(6)
	c.maxConcurrentRequests = 2
	c.disableConcurrentReads, c.useConcurrentWrites = vNondetBool(), vNondetBool()
	f := &File{c: c, path: "/f", handle: "h"}
	n := 1 + vChoice(c.maxPacket)
	b := make([]byte, n)
	vC15Reqs = 0
	var m int
	var err error
	if vNondetBool() {
		m, err = f.ReadAt(b, int64(vNondetU32()))
	} else {
		m, err = f.WriteAt(b, int64(vNondetU32()))
	}
	vAssert(err == nil && m == n, "the operation completes")
	vAssert(vC15Reqs == 1, "an operation that fits in one packet is exactly one request")
}

// the implicit offset is part of the state the operations are atomic on: two
// goroutines that Read one byte each from the same File get the two bytes of
// the file, one each, in either order, and the offset ends behind them - on
// every interleaving of their steps (added after seeded change C15-d)
var vC15Content []byte

func vC15ReadPeer(typ byte, body []byte) (fxp, []byte) {
	id := body[:4]
	if typ == sshFxpRead {
		_, rest := vBodyStr(body[4:])
		off := int(vBE64(rest))
		if off < len(vC15Content) {
			return sshFxpData, append(append([]byte{}, id...), 0, 0, 0, 1, vC15Content[off])
		}
		return vStatusReply(id, sshFxEOF)
	}
	return vStatusReply(id, sshFxOk)
}

func vh_C15_concurrent_file_reads() {
	a, b := vNondetU8(), vNondetU8()
	vAssume(a != b)
	vC15Content = []byte{a, b}
	vPeer = vC15ReadPeer
	c := vPeerClient()
	defer vPeerDone(c)
	c.maxPacket = 1
	f := &File{c: c, path: "/f", handle: "h"}
	var got [2]byte
	var ns [2]int
	var wg sync.WaitGroup
	for g := 0; g < 2; g++ {
		g := g
		wg.Add(1)
		go func() {
			defer wg.Done()
			buf := make([]byte, 1)
			n, _ := f.Read(buf)
			ns[g], got[g] = n, buf[0]
		}()
	}
	wg.Wait()
	vAssert(ns[0] == 1 && ns[1] == 1, "both reads deliver a byte")
	vAssert((got[0] == a && got[1] == b) || (got[0] == b && got[1] == a), "the two reads return the two bytes of the file, one each")
	vAssert(f.offset == 2, "the offset ends behind both reads")
}

// with the allocator: the two page-lifetime lemmas the atomicity argument
// needs (shared with C18) - a request's pages are recorded under its order id,
// and pages are given back only after the response that refers to them has been
// handed to the sender, whatever order the responses complete in (added after
// seeded changes C15-a / C15-e, which only C18's check reported)
func vh_C15_alloc_release_after_send() { vAllocReleaseAfterSend() }

func vh_C15_alloc_pages_tagged() { vAllocPagesTagged() }
