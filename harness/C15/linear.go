//go:build verif

package sftp

import "sync"

//verif:constoverride (*github.com/pkg/sftp.packetManager).workerChan 8 2

// Server-side histories of concurrent single-packet operations on one file:
// the real dispatcher and read/write workers, a model file whose ReadAt and
// WriteAt are atomic steps (visible yield, then the whole body), symbolic
// data. Every read must return, byte for byte, the content of some
// serialisation of the writes (here: one of the values the byte ever had),
// never a torn or foreign value; the final content is one of the written values.

func vDataOf(b []byte) (byte, bool) {
	// DATA frame: len(4) type(1) id(4) datalen(4) data
	if len(b) == 14 && b[4] == sshFxpData && vBE32(b[9:]) == 1 {
		return b[13], true
	}
	return 0, false
}

func vFindResp(resp [][]byte, id uint32) []byte {
	for _, b := range resp {
		if vRespID(b) == id {
			return b
		}
	}
	return nil
}

func vh_C15_write_read() {
	vErrKinds = 0
	ids := vIDs(2)
	init, x := vNondetU8(), vNondetU8()
	svr := vNewServer(false, "")
	f := &vMFile{name: "/o", data: []byte{init, 7}, yield: true}
	svr.openFiles["1"] = f
	resp := vPipelineOpt(svr, []requestPacket{
		&sshFxpWritePacket{ID: ids[0], Handle: "1", Offset: 0, Length: 1, Data: []byte{x}},
		&sshFxpReadPacket{ID: ids[1], Handle: "1", Offset: 0, Len: 1},
	}, false)
	vAssert(len(resp) == 2, "two responses")
	r := vFindResp(resp, ids[1])
	v, ok := vDataOf(r)
	vAssert(ok, "the read is answered with one byte of data")
	vAssert(v == init || v == x, "the read returns the content before or after the write, nothing else")
	vAssert(f.data[0] == x && f.data[1] == 7, "final content is the written value, neighbours untouched")
	c, isS := vStatusCode(vFindResp(resp, ids[0]))
	vAssert(isS && c == sshFxOk, "the write succeeds")
}

// the same with a concurrent size query (served by the command worker)
//
//verif:tier thorough
func vh_C15_write_read_fstat() {
	vErrKinds = 0
	ids := vIDs(3)
	init, x := vNondetU8(), vNondetU8()
	svr := vNewServer(false, "")
	f := &vMFile{name: "/o", data: []byte{init, 7}, yield: true}
	svr.openFiles["1"] = f
	resp := vPipelineOpt(svr, []requestPacket{
		&sshFxpWritePacket{ID: ids[0], Handle: "1", Offset: 0, Length: 1, Data: []byte{x}},
		&sshFxpReadPacket{ID: ids[1], Handle: "1", Offset: 0, Len: 1},
		&sshFxpFstatPacket{ID: ids[2], Handle: "1"},
	}, false)
	vAssert(len(resp) == 3, "three responses")
	v, ok := vDataOf(vFindResp(resp, ids[1]))
	vAssert(ok && (v == init || v == x), "the read returns the content before or after the write, nothing else")
	vAssert(f.data[0] == x && f.data[1] == 7, "final content is the written value, neighbours untouched")
	st := vFindResp(resp, ids[2])
	vAssert(st != nil && st[4] == sshFxpAttrs && vBE64(st[13:]) == 2, "the size query reports the (unchanged) size")
}

//verif:tier thorough
func vh_C15_two_writes_read() {
	vErrKinds = 0
	ids := vIDs(3)
	init, x, y := vNondetU8(), vNondetU8(), vNondetU8()
	svr := vNewServer(false, "")
	f := &vMFile{name: "/o", data: []byte{init}, yield: true}
	svr.openFiles["1"] = f
	resp := vPipelineOpt(svr, []requestPacket{
		&sshFxpWritePacket{ID: ids[0], Handle: "1", Offset: 0, Length: 1, Data: []byte{x}},
		&sshFxpWritePacket{ID: ids[1], Handle: "1", Offset: 0, Length: 1, Data: []byte{y}},
		&sshFxpReadPacket{ID: ids[2], Handle: "1", Offset: 0, Len: 1},
	}, false)
	vAssert(len(resp) == 3, "three responses")
	v, ok := vDataOf(vFindResp(resp, ids[2]))
	vAssert(ok, "the read is answered with one byte of data")
	vAssert(v == init || v == x || v == y, "the read returns a value the byte had under some serialisation")
	vAssert(f.data[0] == x || f.data[0] == y, "final content is one of the written values")
}

// With the allocator and the controller goroutine: the request frames go
// through the real recvPacket (pages tagged with getNextOrderID) as in Serve's
// receive loop; a WRITE's payload lives in its receive page, so releasing or
// re-tagging a page too early corrupts the data another request still uses.
// Not registered: the schedule space (6 threads incl. the controller) does not
// finish within budget (>348k paths in 10 min).
//
//verif:tier manual
func vh_C15_alloc_write_read() {
	vErrKinds = 0
	init, x := vNondetU8(), vNondetU8()
	svr := vNewServer(false, "")
	f := &vMFile{name: "/o", data: []byte{init, 7}, yield: true}
	svr.openFiles["1"] = f
	cap := &vCapture{}
	svr.pktMgr = newPktMgr(cap)
	alloc := newAllocator()
	svr.pktMgr.alloc, svr.serverConn.conn.alloc = alloc, alloc
	w1, _ := (&sshFxpWritePacket{ID: 1, Handle: "1", Offset: 0, Length: 1, Data: []byte{x}}).MarshalBinary()
	n := len(w1) - 4
	w1[0], w1[1], w1[2], w1[3] = byte(n>>24), byte(n>>16), byte(n>>8), byte(n)
	r2, _ := (&sshFxpReadPacket{ID: 2, Handle: "1", Offset: 0, Len: 1}).MarshalBinary()
	n = len(r2) - 4
	r2[0], r2[1], r2[2], r2[3] = byte(n>>24), byte(n>>16), byte(n>>8), byte(n)
	s3, _ := (&sshFxpStatPacket{ID: 3, Path: "zzzzzzzzzzzzzzzzzzzzzzzz"}).MarshalBinary()
	n = len(s3) - 4
	s3[0], s3[1], s3[2], s3[3] = byte(n>>24), byte(n>>16), byte(n>>8), byte(n)
	svr.serverConn.conn.Reader = &vReader{data: append(append(w1, r2...), s3...)}
	var wg sync.WaitGroup
	runWorker := func(ch chan orderedRequest) {
		wg.Add(1)
		go func() {
			defer wg.Done()
			svr.sftpServerWorker(ch)
		}()
	}
	pktChan := svr.pktMgr.workerChan(runWorker)
	for i := 0; i < 3; i++ { // Serve's receive loop
		typ, b, err := svr.serverConn.recvPacket(svr.pktMgr.getNextOrderID())
		vAssert(err == nil, "frame received")
		pkt, err := makePacket(rxPacket{typ, b})
		vAssert(err == nil, "frame decoded")
		pktChan <- svr.pktMgr.newOrderedRequest(pkt)
	}
	vQuiesce() // everything that can be answered has been answered
	vAssert(f.data[0] == x && f.data[1] == 7, "the write stored its own payload, neighbours untouched")
	r := vFindResp(cap.pkts, 2)
	if r != nil {
		v, ok := vDataOf(r)
		vAssert(ok && (v == init || v == x), "the read returns the content before or after the write, nothing else")
	}
	close(pktChan)
	wg.Wait()
}
