//go:build verif

package openssh

import sshfx "github.com/pkg/sftp/internal/encoding/ssh/filexfer"

func vN() int {
	if vThorough() {
		return 32
	}
	return 24
}

func vh_C08_ossh_packets() {
	data := vNondetBytesC(vN())
	vConsumed(len(data))
	switch vChoice(6) {
	case 0:
		var p FSyncExtendedPacket
		vEmit("err", p.UnmarshalBinary(data) != nil)
	case 1:
		var p HardlinkExtendedPacket
		vEmit("err", p.UnmarshalBinary(data) != nil)
	case 2:
		var p POSIXRenameExtendedPacket
		vEmit("err", p.UnmarshalBinary(data) != nil)
	case 3:
		var p StatVFSExtendedPacket
		vEmit("err", p.UnmarshalBinary(data) != nil)
	case 4:
		var p FStatVFSExtendedPacket
		vEmit("err", p.UnmarshalBinary(data) != nil)
	case 5:
		var p StatVFSExtendedReplyPacket
		err := p.UnmarshalBinary(data)
		vAssert((err == nil) == (len(data) >= 88), "statvfs reply needs eleven uint64")
		vEmit("err", err != nil)
		var q StatVFSExtendedReplyPacket
		vEmit("err2", q.UnmarshalPacketBody(sshfx.NewBuffer(data)) != nil)
	}
}
