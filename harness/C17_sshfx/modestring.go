//go:build verif

package sshfx

// FileMode.String: the ls-style text agrees with the bits for every mode word
func vh_C17_fx_mode_string() {
	m := FileMode(vNondetU32())
	s := m.String()
	vAssert(len(s) == 10, "ten characters")
	var t byte = '?'
	switch m & ModeType {
	case ModeRegular:
		t = '-'
	case ModeDir:
		t = 'd'
	case ModeSymlink:
		t = 'l'
	case ModeDevice:
		t = 'b'
	case ModeCharDevice:
		t = 'c'
	case ModeNamedPipe:
		t = 'p'
	case ModeSocket:
		t = 's'
	}
	vAssert(s[0] == t, "type letter agrees with the type bits")
	letters := "rwxrwxrwx"
	for i := 0; i < 9; i++ {
		bit := m&(1<<uint(8-i)) != 0
		c := s[i+1]
		special := (i == 2 && m&ModeSetUID != 0) || (i == 5 && m&ModeSetGID != 0) || (i == 8 && m&ModeSticky != 0)
		if !special {
			if bit {
				vAssert(c == letters[i], "permission letter present iff the bit is set")
			} else {
				vAssert(c == '-', "permission letter present iff the bit is set")
			}
			continue
		}
		lower, upper := byte('s'), byte('S')
		if i == 8 {
			lower, upper = 't', 'T'
		}
		if bit {
			vAssert(c == lower, "special bit with execute: lower-case letter")
		} else {
			vAssert(c == upper, "special bit without execute: upper-case letter")
		}
	}
	vAssert(m.IsDir() == (s[0] == 'd') && m.IsRegular() == (s[0] == '-'), "IsDir/IsRegular agree with the text")
	vEmit("s", s)
}
