//go:build verif

package sftp

// Harness API. Under the symbolic engine (gosmt) every v* function below is
// an intrinsic and its body is ignored; compiled natively (go test -tags
// verif) the same functions read the solver's model from the witness file
// named by $VERIF_WITNESS, so the identical harness runs as an ordinary test.

import (
	"context"
	"encoding/binary"
	"encoding/hex"
	"encoding/json"
	"fmt"
	"io"
	"os"
	"reflect"
	"sync"
	"time"
)

type vWitnessVal struct {
	Kind  string  `json:"kind"`
	Name  string  `json:"name"`
	Val   uint64  `json:"val"`
	Bytes []uint8 `json:"bytes"`
}

type vWitness struct {
	Harness string        `json:"harness"`
	Kind    string        `json:"kind"`
	Label   string        `json:"label"`
	Site    string        `json:"site"`
	Nondet  []vWitnessVal `json:"nondet"`
	Sched   []int         `json:"sched"`
}

var (
	vW        *vWitness
	vWPos     int
	vMu       sync.Mutex
	vFailures []string
	vEmits    []string
)

func vLoadWitness(path string) error {
	b, err := os.ReadFile(path)
	if err != nil {
		return err
	}
	w := &vWitness{}
	if err := json.Unmarshal(b, w); err != nil {
		return err
	}
	vW, vWPos, vFailures, vEmits = w, 0, nil, nil
	return nil
}

func vNext(kind string) vWitnessVal {
	vMu.Lock()
	defer vMu.Unlock()
	if vW == nil {
		panic("verif: no witness loaded")
	}
	// skip entries the engine created for opaque strings (not requested natively)
	for vWPos < len(vW.Nondet) && len(vW.Nondet[vWPos].Name) > 7 && vW.Nondet[vWPos].Name[:7] == "opaque:" {
		vWPos++
	}
	if vWPos >= len(vW.Nondet) {
		// beyond the recorded prefix: the engine's path ended earlier; use zero
		return vWitnessVal{Kind: kind}
	}
	v := vW.Nondet[vWPos]
	vWPos++
	if v.Kind != kind {
		panic(fmt.Sprintf("verif: witness kind mismatch at %d: have %s want %s", vWPos-1, v.Kind, kind))
	}
	return v
}

func vNondetU8() uint8   { return uint8(vNext("u8").Val) }
func vNondetU16() uint16 { return uint16(vNext("u16").Val) }
func vNondetU32() uint32 { return uint32(vNext("u32").Val) }
func vNondetU64() uint64 { return vNext("u64").Val }
func vNondetInt() int    { return int(vNext("int").Val) }
func vNondetI64() int64  { return int64(vNext("i64").Val) }
func vNondetBool() bool  { return vNext("bool").Val != 0 }

func vNondetBytes(max int) []byte {
	v := vNext("bytes")
	b := make([]byte, v.Val)
	copy(b, v.Bytes)
	return b
}

func vNondetString(max int) string {
	v := vNext("string")
	b := make([]byte, v.Val)
	copy(b, v.Bytes)
	return string(b)
}

func vNondetArray(n int) []byte {
	v := vNext("array")
	b := make([]byte, n)
	copy(b, v.Bytes)
	return b
}

// like vNondetBytes / vNondetString, but the engine case-splits on the length
func vNondetBytesC(max int) []byte   { return vNondetBytes(max) }
func vNondetStringC(max int) string { return vNondetString(max) }

// vHavocBytes: n bytes of arbitrary content that is not recorded in the witness
// (natively: a recognisable dirty pattern)
func vHavocBytes(n int) []byte {
	b := make([]byte, n)
	for i := range b {
		b[i] = 0xAA
	}
	return b
}

func vChoice(n int) int { return int(vNext("choice").Val) }

func vConcrete(x int, max int) int { return x }

type vAssumeFailed struct{}

func vAssume(c bool) {
	if !c {
		panic(vAssumeFailed{})
	}
}

func vAssert(c bool, label string) {
	if !c {
		vMu.Lock()
		vFailures = append(vFailures, label)
		vMu.Unlock()
	}
}

func vReach(label string) {}

func vEmit(label string, v any) {
	vMu.Lock()
	vEmits = append(vEmits, label+"="+vRender(v))
	vMu.Unlock()
}

func vRender(v any) string {
	switch x := v.(type) {
	case nil:
		return "nil"
	case bool:
		if x {
			return "true"
		}
		return "false"
	case string:
		return hex.EncodeToString([]byte(x))
	case []byte:
		return hex.EncodeToString(x)
	}
	rv := reflect.ValueOf(v)
	switch rv.Kind() {
	case reflect.Int, reflect.Int64:
		return fmt.Sprintf("%d", uint64(rv.Int()))
	case reflect.Int32:
		return fmt.Sprintf("%d", uint32(rv.Int()))
	case reflect.Int16:
		return fmt.Sprintf("%d", uint16(rv.Int()))
	case reflect.Int8:
		return fmt.Sprintf("%d", uint8(rv.Int()))
	case reflect.Uint, reflect.Uint8, reflect.Uint16, reflect.Uint32, reflect.Uint64, reflect.Uintptr:
		return fmt.Sprintf("%d", rv.Uint())
	case reflect.String:
		return hex.EncodeToString([]byte(rv.String()))
	case reflect.Bool:
		if rv.Bool() {
			return "true"
		}
		return "false"
	}
	return fmt.Sprintf("<%T>", v)
}

func vYield(key int)      {}

// vQuiesce waits until every other goroutine has finished or is blocked.
func vQuiesce() { time.Sleep(5 * time.Millisecond) }
func vConsumed(n int)     {}
func vSymbolic() bool     { return false }
func vExpectPanic()       {}

var vOnceDone = map[string]bool{}

// vOnce runs f once per process (natively harnesses share one process).
func vOnce(key string, f func()) {
	if !vOnceDone[key] {
		vOnceDone[key] = true
		f()
	}
}


// non-short-circuit connectives (no branching under the engine)
func vAnd(a, b bool) bool     { return a && b }
func vOr(a, b bool) bool      { return a || b }
func vImplies(a, b bool) bool { return !a || b }
func vBytesEq(a, b []byte) bool {
	if len(a) != len(b) {
		return false
	}
	for i := range a {
		if a[i] != b[i] {
			return false
		}
	}
	return true
}

func vThorough() bool     { return os.Getenv("VERIF_TIER") == "thorough" }
func vGoroutines() int    { return 0 }
func vAllocBytes() uint64 { return 0 }
func vOpaqueString() string { return "" }
func vTypeName(v any) string {
	if v == nil {
		return "<nil>"
	}
	return reflect.TypeOf(v).String()
}

func vSliceLen(x any) int { return reflect.ValueOf(x).Len() }
func vSliceSwap(x any, i, j int) {
	reflect.Swapper(x)(i, j)
}
func vComparable(x any) bool {
	if x == nil {
		return true
	}
	return reflect.TypeOf(x).Comparable()
}
func vAssignTo(err error, target any) bool {
	val := reflect.ValueOf(target)
	t := val.Type().Elem()
	if err != nil && reflect.TypeOf(err).AssignableTo(t) {
		val.Elem().Set(reflect.ValueOf(err))
		return true
	}
	return false
}
func vFlatSize(data any) int { return binary.Size(data) }
func vFlatEncode(data any) []byte {
	b, _ := binary.Append(nil, binary.BigEndian, data)
	return b
}
func vFlatDecode(data any, b []byte) {
	binary.Decode(b, binary.BigEndian, data)
}

// ---------------------------------------------------------------------
// Go-source models of standard-library functions. The engine redirects the
// named callee to these; they are interpreted like any other code.

// model of errors.Is
func vErrorsIs(err, target error) bool {
	if err == nil || target == nil {
		return err == target
	}
	isComparable := vComparable(target)
	return vIs(err, target, isComparable)
}

func vIs(err, target error, targetComparable bool) bool {
	for {
		if targetComparable && err == target {
			return true
		}
		if x, ok := err.(interface{ Is(error) bool }); ok && x.Is(target) {
			return true
		}
		switch x := err.(type) {
		case interface{ Unwrap() error }:
			err = x.Unwrap()
			if err == nil {
				return false
			}
		case interface{ Unwrap() []error }:
			for _, err := range x.Unwrap() {
				if vIs(err, target, targetComparable) {
					return true
				}
			}
			return false
		default:
			return false
		}
	}
}

// model of errors.As
func vErrorsAs(err error, target any) bool {
	if err == nil {
		return false
	}
	for {
		if vAssignTo(err, target) {
			return true
		}
		if x, ok := err.(interface{ As(any) bool }); ok && x.As(target) {
			return true
		}
		switch x := err.(type) {
		case interface{ Unwrap() error }:
			err = x.Unwrap()
			if err == nil {
				return false
			}
		default:
			return false
		}
	}
}

// model of sort.Slice: insertion sort calling the real less closure
func vSortSlice(x any, less func(i, j int) bool) {
	n := vSliceLen(x)
	for i := 1; i < n; i++ {
		for j := i; j > 0 && less(j, j-1); j-- {
			vSliceSwap(x, j, j-1)
		}
	}
}

// models of binary.Write / binary.Read for pointers to flat integer structs
func vBinaryWrite(w io.Writer, order binary.ByteOrder, data any) error {
	bs := vFlatEncode(data)
	_, err := w.Write(bs)
	return err
}

func vBinaryRead(r io.Reader, order binary.ByteOrder, data any) error {
	bs := make([]byte, vFlatSize(data))
	if _, err := io.ReadFull(r, bs); err != nil {
		return err
	}
	vFlatDecode(data, bs)
	return nil
}

// model of context.Background / context.WithCancel
type vCtx struct {
	mu       sync.Mutex
	done     chan struct{}
	err      error
	children []*vCtx
}

func (c *vCtx) Deadline() (time.Time, bool) { return time.Time{}, false }
func (c *vCtx) Done() <-chan struct{}       { return c.done }
func (c *vCtx) Value(key any) any           { return nil }
func (c *vCtx) Err() error {
	c.mu.Lock()
	defer c.mu.Unlock()
	return c.err
}

func (c *vCtx) cancel() {
	c.mu.Lock()
	if c.err != nil {
		c.mu.Unlock()
		return
	}
	c.err = vCanceled
	close(c.done)
	ch := c.children
	c.children = nil
	c.mu.Unlock()
	for _, k := range ch {
		k.cancel()
	}
}

var vCanceled error = vCanceledErr{}

type vCanceledErr struct{}

func (vCanceledErr) Error() string { return "context canceled" }

var vBackground = &vCtx{}

func vContextBackground() context.Context { return vBackground }

func vContextWithCancel(parent context.Context) (context.Context, context.CancelFunc) {
	c := &vCtx{done: make(chan struct{})}
	if p, ok := parent.(*vCtx); ok && p != vBackground {
		p.mu.Lock()
		if p.err != nil {
			p.mu.Unlock()
			c.cancel()
		} else {
			p.children = append(p.children, c)
			p.mu.Unlock()
		}
	}
	return c, c.cancel
}
