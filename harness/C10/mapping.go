//go:build verif

package sftp

import (
	"errors"
	"fmt"
	"io"
	"os"
	"syscall"
)

// ---- backward mapping: what a handler returns reaches the client unchanged in kind ----

type vErrCmd struct {
	vH
	err error
}

func (h vErrCmd) Filecmd(r *Request) error { return h.err }

// vWrap puts e inside one of os's own error wrappers (or none)
func vWrap(e error, w int) (error, string) {
	switch w {
	case 1:
		return &os.PathError{Op: "op", Path: "/p", Err: e}, "*PathError"
	case 2:
		return &os.LinkError{Op: "op", Old: "/a", New: "/b", Err: e}, "*LinkError"
	case 3:
		return &os.SyscallError{Syscall: "sc", Err: e}, "*SyscallError"
	case 4:
		return fmt.Errorf("ctx: %w", e), "fmt %w"
	}
	return e, "bare"
}

func vh_C10_error_kinds() {
	vHReset()
	var base error
	var want uint32
	var bn string
	switch vChoice(9) {
	case 0:
		base, want, bn = syscall.ENOENT, sshFxNoSuchFile, "ENOENT"
	case 1:
		base, want, bn = syscall.EACCES, sshFxPermissionDenied, "EACCES"
	case 2:
		base, want, bn = syscall.EPERM, sshFxPermissionDenied, "EPERM"
	case 3:
		base, want, bn = os.ErrNotExist, sshFxNoSuchFile, "os.ErrNotExist"
	case 4:
		base, want, bn = os.ErrPermission, sshFxPermissionDenied, "os.ErrPermission"
	case 5:
		base, want, bn = io.EOF, sshFxEOF, "io.EOF"
	case 6:
		base, want, bn = syscall.EIO, sshFxFailure, "EIO"
	case 7:
		code := vNondetU32()
		base, want, bn = fxerr(code), code, "sftp status code"
	case 8:
		base, want, bn = errors.New("boom"), sshFxFailure, "opaque error"
	}
	w := vChoice(5)
	// io.EOF, status codes and opaque errors are stated "as such": bare or %w;
	// the os/syscall errors: bare or inside os's own wrappers (not fmt's %w)
	std := bn == "io.EOF" || bn == "sftp status code" || bn == "opaque error"
	if (std && w != 0 && w != 4) || (!std && w == 4) {
		return
	}
	e, wn := vWrap(base, w)
	rs := vNewRequestServer(Handlers{FileGet: vH{}, FilePut: vH{}, FileCmd: vErrCmd{err: e}, FileList: vH{}}, "/")
	r, err := vRSStep(rs, &sshFxpMkdirPacket{ID: 9, Path: "/d"})
	vAssert(err == nil, "worker continues")
	b := vRespBytes(r)
	code, isStatus := vStatusCode(b)
	vAssert(isStatus, "status reply")
	vAssert(code == want, bn+" ("+wn+"): status code keeps the error's kind")
	// client side: the standard errors are recognisable as such
	ce := normaliseError(unmarshalStatus(9, b[5:]))
	switch want {
	case sshFxNoSuchFile:
		vAssert(errors.Is(ce, os.ErrNotExist), bn+" ("+wn+"): client sees not-exist")
	case sshFxPermissionDenied:
		vAssert(errors.Is(ce, os.ErrPermission), bn+" ("+wn+"): client sees permission")
	case sshFxEOF:
		vAssert(ce == io.EOF, bn+" ("+wn+"): client sees io.EOF")
	}
	if bn == "opaque error" && w == 0 {
		se, ok := ce.(*StatusError)
		vAssert(ok && se.msg == "boom", "any other error arrives as a failure carrying its text")
	}
	vEmit("code", code)
}

// ---- forward mapping: the matching handler is invoked exactly once with what the client sent ----

func vh_C10_forward() {
	vHErrKinds = 0
	vTape = nil
	vHReset()
	h := vSymHandlers()
	base := "/"
	if vNondetBool() {
		base = "/start"
	}
	rs := vNewRequestServer(h, base)
	id := vNondetU32()
	flags := vNondetU32()
	attrs := vNondetArray(8)
	abs := func(p string) string { // expected cleaned form of the fixed test paths
		if base == "/" {
			return "/" + p
		}
		return base + "/" + p
	}
	_, hasOpenFile := h.FilePut.(OpenFileWriter)
	_, hasPosix := h.FileCmd.(PosixRenameFileCmder)
	_, hasStatVFS := h.FileCmd.(StatVFSFileCmder)
	_, hasLstat := h.FileList.(LstatFileLister)
	_, hasReadlink := h.FileList.(ReadlinkFileLister)
	_, hasRealPath := h.FileList.(RealPathFileLister)
	_, hasLegacy := h.FileList.(legacyRealPathFileLister)
	var pkt requestPacket
	var want vHCall
	none := false
	k := vChoice(16)
	switch k {
	case 0: // OPEN
		pkt = &sshFxpOpenPacket{ID: id, Path: "rel", Pflags: flags, Flags: 0, Attrs: attrs}
		wr := flags&(sshFxfWrite|sshFxfAppend|sshFxfCreat|sshFxfTrunc) != 0
		rd := flags&sshFxfRead != 0
		switch {
		case wr && rd && hasOpenFile:
			want = vHCall{Op: "OpenFile", Method: "Open"}
		case wr:
			want = vHCall{Op: "Filewrite", Method: "Put"}
		case rd:
			want = vHCall{Op: "Fileread", Method: "Get"}
		default:
			none = true
		}
		want.Filepath, want.Flags, want.Attrs = abs("rel"), flags, attrs
	case 1:
		pkt = &sshFxpOpendirPacket{ID: id, Path: "rel"}
		want = vHCall{Op: "Filelist", Method: "List", Filepath: abs("rel")}
	case 2:
		pkt = &sshFxpStatPacket{ID: id, Path: "rel"}
		want = vHCall{Op: "Filelist", Method: "Stat", Filepath: abs("rel")}
	case 3:
		pkt = &sshFxpLstatPacket{ID: id, Path: "rel"}
		if hasLstat {
			want = vHCall{Op: "Lstat", Method: "Lstat", Filepath: abs("rel")}
		} else {
			want = vHCall{Op: "Filelist", Method: "Stat", Filepath: abs("rel")}
		}
	case 4:
		pkt = &sshFxpReadlinkPacket{ID: id, Path: "rel"}
		if hasReadlink {
			want = vHCall{Op: "Readlink", Filepath: abs("rel")}
		} else {
			want = vHCall{Op: "Filelist", Method: "Readlink", Filepath: abs("rel")}
		}
	case 5:
		pkt = &sshFxpRealpathPacket{ID: id, Path: "a/../rel"}
		if hasRealPath || hasLegacy {
			want = vHCall{Op: "RealPath", Filepath: "a/../rel"} // verbatim
		} else {
			none = true
		}
	case 6:
		pkt = &sshFxpSetstatPacket{ID: id, Path: "rel", Flags: flags, Attrs: attrs}
		want = vHCall{Op: "Filecmd", Method: "Setstat", Filepath: abs("rel"), Flags: flags, Attrs: attrs}
	case 7:
		pkt = &sshFxpRenamePacket{ID: id, Oldpath: "rel", Newpath: "/abs/new"}
		want = vHCall{Op: "Filecmd", Method: "Rename", Filepath: abs("rel"), Target: "/abs/new"}
	case 8:
		pkt = &sshFxpRmdirPacket{ID: id, Path: "rel"}
		want = vHCall{Op: "Filecmd", Method: "Rmdir", Filepath: abs("rel")}
	case 9:
		pkt = &sshFxpMkdirPacket{ID: id, Path: "rel", Flags: flags}
		want = vHCall{Op: "Filecmd", Method: "Mkdir", Filepath: abs("rel")}
	case 10:
		pkt = &sshFxpRemovePacket{ID: id, Filename: "rel"}
		want = vHCall{Op: "Filecmd", Method: "Remove", Filepath: abs("rel")}
	case 11:
		// target text verbatim - relative or absolute, clean or not (the absolute
		// spellings added after seeded change C10-f)
		tgt := []string{"../tgt//x", "/abs/dir/../o//x/", "/../..", "", "/"}[vChoice(5)]
		pkt = &sshFxpSymlinkPacket{ID: id, Targetpath: tgt, Linkpath: "rel"}
		want = vHCall{Op: "Filecmd", Method: "Symlink", Filepath: tgt, Target: abs("rel")}
	case 12:
		pkt = &sshFxpExtendedPacket{ID: id, SpecificPacket: &sshFxpExtendedPacketHardlink{ID: id, Oldpath: "rel", Newpath: "new"}}
		want = vHCall{Op: "Filecmd", Method: "Link", Filepath: abs("rel"), Target: abs("new")}
	case 13:
		pkt = &sshFxpExtendedPacket{ID: id, SpecificPacket: &sshFxpExtendedPacketPosixRename{ID: id, Oldpath: "rel", Newpath: "new"}}
		if hasPosix {
			want = vHCall{Op: "PosixRename", Method: "PosixRename", Filepath: abs("rel"), Target: abs("new")}
		} else {
			want = vHCall{Op: "Filecmd", Method: "Rename", Filepath: abs("rel"), Target: abs("new")}
		}
	case 14:
		pkt = &sshFxpExtendedPacket{ID: id, SpecificPacket: &sshFxpExtendedPacketStatVFS{ID: id, Path: "rel"}}
		if hasStatVFS {
			want = vHCall{Op: "StatVFS", Method: "StatVFS", Filepath: abs("rel")}
		} else {
			none = true
		}
	case 15: // FSETSTAT on an open handle: path of the handle, flags/attrs of the packet
		vOpenRequestOfKind(rs, 1)
		pkt = &sshFxpFsetstatPacket{ID: id, Handle: "1", Flags: flags, Attrs: attrs}
		want = vHCall{Op: "Filecmd", Method: "Setstat", Filepath: "/o", Flags: flags, Attrs: attrs}
	}
	kn := vKindName(pkt)
	_, err := vRSStep(rs, pkt)
	vAssert(err == nil, "worker continues")
	// handler-level calls only (object methods ReadAt/ListAt are logged too)
	var calls []vHCall
	for _, c := range vHLog {
		if c.Op != "ListAt" && c.Op != "ReadAt" && c.Op != "WriteAt" {
			calls = append(calls, c)
		}
	}
	if none {
		vAssert(len(calls) == 0, kn+": no handler is invoked")
		return
	}
	vAssert(len(calls) == 1, kn+": the handler is invoked exactly once")
	if len(calls) != 1 {
		return
	}
	g := calls[0]
	vAssert(g.Op == want.Op, kn+": the matching handler is invoked")
	if want.Op != "RealPath" && want.Op != "Readlink" {
		vAssert(g.Method == want.Method, kn+": method name")
		vAssert(g.Target == want.Target, kn+": target path")
		vAssert(g.Flags == want.Flags, kn+": flags as sent")
		vAssert(vBytesEq(g.Attrs, want.Attrs), kn+": attribute bytes as sent")
	}
	vAssert(g.Filepath == want.Filepath, kn+": path")
	vEmit("op", g.Op)
}
