//go:build verif

package sftp

import (
	"io"
	"os"
)

// The way back: what a handler's reader / writer / lister returns reaches the
// wire unchanged in kind. The object behind the handle returns an arbitrary
// (count, error) pair within its interface's contract: data as given (also the
// final short chunk that comes together with io.EOF), end of file only when
// there is nothing, any other error as a failure; writes: the error as such;
// listings: the entries as given, EOF only when there are none.

type vRetObj struct {
	data  []byte
	n     int
	err   error
	ents  []os.FileInfo
	calls int
}

func (o *vRetObj) ReadAt(b []byte, off int64) (int, error) {
	o.calls++
	n := o.n
	if n > len(b) {
		n = len(b)
	}
	copy(b, o.data[:n])
	return n, o.err
}

func (o *vRetObj) WriteAt(b []byte, off int64) (int, error) {
	o.calls++
	return len(b), o.err
}

func (o *vRetObj) ListAt(fis []os.FileInfo, off int64) (int, error) {
	o.calls++
	n := copy(fis, o.ents[:o.n])
	return n, o.err
}

func vRetErr() (error, uint32) {
	switch vChoice(4) {
	case 0:
		return nil, sshFxOk
	case 1:
		return io.EOF, sshFxEOF
	case 2:
		return os.ErrNotExist, sshFxNoSuchFile
	default:
		return ErrSSHFxPermissionDenied, sshFxPermissionDenied
	}
}

func vh_C10_backward() {
	vHErrKinds = 0
	vHReset()
	rs := vNewRequestServer(Handlers{vH{}, vHOpenFile{}, vH{}, vH{}}, "/")
	err, code := vRetErr()
	id := vNondetU32()
	o := &vRetObj{err: err}
	kind := vChoice(5)
	req := &Request{Filepath: "/o", handle: "1"}
	rs.openRequests["1"] = req
	var pkt requestPacket
	switch kind {
	case 0, 1: // READ on a reader / read-writer handle
		o.data = vNondetArray(3)
		o.n = vChoice(4)
		if kind == 0 {
			req.Method, req.readerAt = "Get", o
		} else {
			req.Method, req.writerAtReaderAt = "Open", o
		}
		pkt = &sshFxpReadPacket{ID: id, Handle: "1", Offset: 0, Len: 3}
	case 2, 3: // WRITE on a writer / read-writer handle
		if kind == 2 {
			req.Method, req.writerAt = "Put", o
		} else {
			req.Method, req.writerAtReaderAt = "Open", o
		}
		pkt = &sshFxpWritePacket{ID: id, Handle: "1", Offset: 0, Length: 2, Data: []byte{1, 2}}
	default: // READDIR on a directory handle
		o.ents = []os.FileInfo{&vFI{name: "a", size: 1, mode: 0o644, mtime: vEpoch}, &vFI{name: "b", size: 2, mode: os.ModeDir | 0o755, mtime: vEpoch}}
		o.n = vChoice(3)
		req.Method, req.listerAt = "List", o
		pkt = &sshFxpReaddirPacket{ID: id, Handle: "1"}
	}
	r, werr := vRSStep(rs, pkt)
	vAssert(werr == nil, "worker continues")
	b := vRespBytes(r)
	vAssert(o.calls == 1, "the object is asked exactly once")
	vAssert(vRespID(b) == id, "reply carries the request id")
	st, isStatus := vStatusCode(b)
	switch kind {
	case 0, 1:
		if o.n > 0 && (err == nil || err == io.EOF) {
			vAssert(b[4] == sshFxpData && vBE32(b[9:]) == uint32(o.n) && vBytesEq(b[13:13+o.n], o.data[:o.n]), "READ: the data the handler delivered, all of it, also together with io.EOF")
		} else if err != nil {
			vAssert(isStatus && st == code, "READ: the handler's error as such")
		} else {
			vAssert(b[4] == sshFxpData && vBE32(b[9:]) == 0, "READ: an empty read without error is empty data")
		}
	case 2, 3:
		vAssert(isStatus && st == code, "WRITE: the handler's outcome as such")
	default:
		if o.n > 0 && (err == nil || err == io.EOF) {
			vAssert(b[4] == sshFxpName && vBE32(b[9:]) == uint32(o.n), "READDIR: the entries the lister delivered, also together with io.EOF")
		} else if err != nil {
			vAssert(isStatus && st == code, "READDIR: the lister's error as such")
		}
	}
	vEmit("typ", int(b[4]))
}
