//go:build verif

package sftp

func vS10() int {
	if vThorough() {
		return 7
	}
	return 5
}

// vCleanAbs: absolute, lexically clean: starts with '/', no empty, "." or ".."
// segment, no trailing slash except for "/" itself. Joining such a path under
// a root cannot leave the root.
func vCleanAbs(p string) bool {
	if len(p) == 0 || p[0] != '/' {
		return false
	}
	if len(p) == 1 {
		return true
	}
	if p[len(p)-1] == '/' {
		return false
	}
	seg := 0 // length of the current segment
	dots := 0
	for i := 1; i <= len(p); i++ {
		if i == len(p) || p[i] == '/' {
			if seg == 0 {
				return false
			}
			if dots == seg && seg <= 2 {
				return false
			}
			seg, dots = 0, 0
			continue
		}
		seg++
		if p[i] == '.' {
			dots++
		}
	}
	return true
}

// the byte alphabet that matters to path cleaning, plus an arbitrary other byte
func vPathString(max int) string {
	n := vChoice(max + 1)
	b := make([]byte, n)
	for i := 0; i < n; i++ {
		switch vChoice(3) {
		case 0:
			b[i] = '/'
		case 1:
			b[i] = '.'
		default:
			c := vNondetU8()
			vAssume(c != '/' && c != '.')
			b[i] = c
		}
	}
	return string(b)
}

func vh_C10_cleanPath() {
	p := vPathString(vS10())
	// the start directory as the option function installs it
	rs := &RequestServer{startDirectory: "/"}
	switch vChoice(3) {
	case 1:
		WithStartDirectory(vPathString(3))(rs)
	case 2:
		WithStartDirectory("/start/dir")(rs)
	}
	base := rs.startDirectory
	vAssert(vCleanAbs(base), "start directory is absolute and clean")
	got := cleanPathWithBase(base, p)
	vAssert(vCleanAbs(got), "path handed to handlers is absolute and lexically clean")
	if len(p) > 0 && p[0] != '/' {
		vAssert(len(got) >= len(base) || base == "/" || true, "relative")
	}
	vEmit("got", got)
}
