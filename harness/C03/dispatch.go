//go:build verif

package sftp

import (
	"context"
	"io"
	"sync"
)

//verif:noredirect (*github.com/pkg/sftp.clientConn).sendPacket
//verif:noredirect (*github.com/pkg/sftp.clientConn).dispatchRequest

// one incoming packet against an arbitrary table of requests in flight
func vh_C03_recv_dispatch() {
	n := vChoice(4)
	ids := make([]uint32, n)
	chs := make([]chan result, n)
	c := &clientConn{inflight: make(map[uint32]chan<- result), closed: make(chan struct{})}
	for i := 0; i < n; i++ {
		ids[i] = vNondetU32()
		for j := 0; j < i; j++ {
			vAssume(ids[i] != ids[j]) // ids in flight are pairwise distinct (nextID)
		}
		chs[i] = make(chan result, 1)
		c.inflight[ids[i]] = chs[i]
	}
	sid := vNondetU32()
	typ := vNondetU8()
	payload := vNondetBytesC(3)
	body := append(refU32(nil, sid), payload...)
	frame := refFrame(typ, body)
	w := &vBuf{}
	c.conn = conn{Reader: &vReader{data: frame}, WriteCloser: w}
	err := c.recv()
	hit := -1
	for i := 0; i < n; i++ {
		if ids[i] == sid {
			hit = i
		}
	}
	if hit < 0 {
		vAssert(err != nil && err != io.EOF, "a reply nobody waits for ends the receive loop with an error")
		for i := 0; i < n; i++ {
			vAssert(len(chs[i]) == 0, "nothing is delivered to anybody")
		}
		vAssert(len(c.inflight) == n, "table untouched")
		return
	}
	vAssert(err == io.EOF, "the loop goes on to the next packet (here: end of stream)")
	for i := 0; i < n; i++ {
		if i == hit {
			vAssert(len(chs[i]) == 1, "the result goes to the channel registered under the reply's id")
			r := <-chs[i]
			vAssert(r.err == nil && r.typ == fxp(typ) && vBytesEq(r.data, body), "type and data as received")
		} else {
			vAssert(len(chs[i]) == 0, "no other caller is touched")
		}
	}
	_, still := c.inflight[sid]
	vAssert(!still && len(c.inflight) == n-1, "the entry is removed, the others stay")
	vAssert(w.closed, "recv closes the writer on exit")
}

// a caller that gives up (context cancelled while its request is in flight)
// does not disturb anybody else: the server still answers that request, and
// the late reply must not end the receive loop - the other caller gets the
// reply to its own request (added after seeded change C03-d)
func vh_C03_cancelled_caller() {
	w := &vBuf{}
	c := &clientConn{inflight: make(map[uint32]chan<- result), closed: make(chan struct{})}
	c.conn = conn{Reader: &vReader{}, WriteCloser: w}
	idA, idB := vNondetU32(), vNondetU32()
	vAssume(idA != idB)
	chB := make(chan result, 1)
	c.inflight[idB] = chB
	ctx, cancel := context.WithCancel(context.Background())
	cancel()
	_, _, err := c.sendPacket(ctx, nil, &sshFxpReaddirPacket{ID: idA, Handle: "h"})
	if err == nil {
		return // (the select may as well have taken a reply, had there been one)
	}
	vAssert(err == ctx.Err(), "the cancelled caller gets the context's error")
	// the replies arrive: first the one nobody waits for any more, then B's
	replyA := refFrame(sshFxpStatus, append(refU32(nil, idA), 0, 0, 0, 1, 0, 0, 0, 0, 0, 0, 0, 0))
	bodyB := append(refU32(nil, idB), 0, 0, 0, 0, 0, 0, 0, 0, 0, 0, 0, 0)
	order := vNondetBool()
	if order {
		c.conn.Reader = &vReader{data: append(replyA, refFrame(sshFxpStatus, bodyB)...)}
	} else {
		c.conn.Reader = &vReader{data: append(refFrame(sshFxpStatus, bodyB), replyA...)}
	}
	rerr := c.recv()
	vAssert(rerr == io.EOF, "the late reply to a cancelled request does not end the receive loop")
	vAssert(len(chB) == 1, "the other caller still gets the reply to its own request")
	if len(chB) == 1 {
		r := <-chB
		vAssert(r.err == nil && r.typ == sshFxpStatus && vBytesEq(r.data, bodyB), "type and data as received")
	}
}

func vh_C03_ids_distinct() {
	c := &Client{}
	c.nextid = vNondetU32()
	a, b, d := c.nextID(), c.nextID(), c.nextID()
	vAssert(a != b && b != d && a != d, "consecutive ids are pairwise distinct")
}

// the same with the callers in different goroutines: every interleaving of the
// atomic operations inside nextID (added after seeded change C03-c)
func vh_C03_ids_distinct_conc() {
	c := &Client{}
	c.nextid = vNondetU32()
	n := 2
	if vThorough() {
		n = 3
	}
	ids := make([][2]uint32, n)
	var wg sync.WaitGroup
	for g := 0; g < n; g++ {
		g := g
		wg.Add(1)
		go func() {
			defer wg.Done()
			ids[g][0] = c.nextID()
			ids[g][1] = c.nextID()
		}()
	}
	wg.Wait()
	for i := 0; i < 2*n; i++ {
		for j := i + 1; j < 2*n; j++ {
			vAssert(ids[i/2][i%2] != ids[j/2][j%2], "ids handed to concurrent callers are pairwise distinct")
		}
	}
}

// ---- L2: two callers, the real recv loop, a peer that answers the two
// outstanding requests in either order ----

// vOrderPeer collects request frames; once `want` requests are there it
// answers them in an order of its choosing; the reply to a STAT carries the
// path length as file size, so each caller can recognise its own answer.
type vOrderPeer struct {
	buf     []byte
	pending [][]byte
	want    int
	out     chan []byte
	closed  bool
}

func (p *vOrderPeer) Write(b []byte) (int, error) {
	p.buf = append(p.buf, b...)
	for len(p.buf) >= 4 {
		l := int(vBE32(p.buf))
		if len(p.buf) < 4+l {
			break
		}
		frame := p.buf[4 : 4+l]
		p.buf = p.buf[4+l:]
		id := frame[1:5]
		path, _ := vBodyStr(frame[5:])
		reply := refFrame(sshFxpAttrs, append(append([]byte{}, id...), 0, 0, 0, 1, 0, 0, 0, 0, 0, 0, 0, byte(len(path))))
		p.pending = append(p.pending, reply)
	}
	if len(p.pending) == p.want {
		if p.want == 2 && vNondetBool() {
			p.pending[0], p.pending[1] = p.pending[1], p.pending[0]
		}
		for _, r := range p.pending {
			p.out <- r
		}
		p.pending = nil
	}
	return len(b), nil
}

func (p *vOrderPeer) Close() error {
	if !p.closed {
		p.closed = true
		close(p.out)
	}
	return nil
}

//verif:atomic-invisible
func vh_C03_two_callers() {
	out := make(chan []byte, 4)
	peer := &vOrderPeer{want: 2, out: out}
	c := &Client{clientConn: clientConn{conn: conn{Reader: &vPipeReader{ch: out}, WriteCloser: peer},
		inflight: make(map[uint32]chan<- result), closed: make(chan struct{})}, ext: map[string]string{}, maxPacket: 4, maxConcurrentRequests: 2}
	c.clientConn.wg.Add(1)
	go func() {
		defer c.clientConn.wg.Done()
		if err := c.clientConn.recv(); err != nil {
			c.clientConn.broadcastErr(err)
		}
	}()
	var wg sync.WaitGroup
	var s1, s2 int64
	var e1, e2 error
	wg.Add(2)
	go func() {
		defer wg.Done()
		fi, err := c.Stat("/a")
		e1 = err
		if err == nil {
			s1 = fi.Size()
		}
	}()
	go func() {
		defer wg.Done()
		fi, err := c.Stat("/bcd")
		e2 = err
		if err == nil {
			s2 = fi.Size()
		}
	}()
	wg.Wait()
	vAssert(e1 == nil && e2 == nil, "both calls succeed")
	vAssert(s1 == 2 && s2 == 4, "each call gets the reply to its own request")
	c.Close()
}

var _ = context.Background

// ---- a multi-chunk concurrent ReadAt whose chunk replies come back in every
// order: the real recv loop, slicer, workers and reducer ----

type vReadPeer struct {
	buf     []byte
	pending [][]byte
	want    int
	out     chan []byte
	content []byte
	closed  bool
}

func (p *vReadPeer) Write(b []byte) (int, error) {
	p.buf = append(p.buf, b...)
	for len(p.buf) >= 4 {
		l := int(vBE32(p.buf))
		if len(p.buf) < 4+l {
			break
		}
		frame := p.buf[4 : 4+l]
		p.buf = p.buf[4+l:]
		id := frame[1:5]
		_, rest := vBodyStr(frame[5:])
		off := int(vBE64(rest))
		var reply []byte
		if off < len(p.content) {
			reply = refFrame(sshFxpData, append(append([]byte{}, id...), 0, 0, 0, 1, p.content[off]))
		} else {
			reply = refFrame(sshFxpStatus, append(append([]byte{}, id...), 0, 0, 0, 1, 0, 0, 0, 0, 0, 0, 0, 0))
		}
		p.pending = append(p.pending, reply)
	}
	if len(p.pending) == p.want {
		// every permutation of the outstanding replies
		for len(p.pending) > 0 {
			k := vChoice(len(p.pending))
			p.out <- p.pending[k]
			p.pending = append(p.pending[:k], p.pending[k+1:]...)
		}
	}
	return len(b), nil
}

func (p *vReadPeer) Close() error {
	if !p.closed {
		p.closed = true
		close(p.out)
	}
	return nil
}

// Not registered as is (6 threads incl. the real recv loop: >311k paths in 10 min); see vh_C03_readat_reply_orders_stub.
//
//verif:atomic-invisible
//verif:tier manual
func vh_C03_readat_reply_orders() {
	content := vNondetArray(3)
	out := make(chan []byte, 4)
	peer := &vReadPeer{want: 3, out: out, content: content}
	c := &Client{clientConn: clientConn{conn: conn{Reader: &vPipeReader{ch: out}, WriteCloser: peer},
		inflight: make(map[uint32]chan<- result), closed: make(chan struct{})}, ext: map[string]string{}, maxPacket: 1, maxConcurrentRequests: 2}
	c.clientConn.wg.Add(1)
	go func() {
		defer c.clientConn.wg.Done()
		if err := c.clientConn.recv(); err != nil {
			c.clientConn.broadcastErr(err)
		}
	}()
	f := &File{c: c, path: "/f", handle: "h"}
	b := make([]byte, 3)
	n, err := f.ReadAt(b, 0)
	vAssert(err == nil && n == 3, "every chunk gets the reply to its own request, whatever the reply order")
	vAssert(vBytesEq(b, content), "the bytes land at their offsets")
	c.Close()
}


// the same without the transport threads: dispatchRequest is replaced by a
// stub that holds the replies back until all chunk requests are out and then
// delivers them to the registered channels in every order
type vHeld struct {
	ch    chan<- result
	typ   fxp
	data  []byte
}

var vHeldReplies []vHeld
var vHeldWant int
var vHeldContent []byte

func vDeferDispatch(c *clientConn, ch chan<- result, p idmarshaler) {
	typ, body := vPeerFrame(p)
	_ = typ
	id := body[:4]
	_, rest := vBodyStr(body[4:])
	off := int(vBE64(rest))
	var h vHeld
	if off < len(vHeldContent) {
		h = vHeld{ch, sshFxpData, append(append([]byte{}, id...), 0, 0, 0, 1, vHeldContent[off])}
	} else {
		h = vHeld{ch, sshFxpStatus, append(append([]byte{}, id...), 0, 0, 0, 1, 0, 0, 0, 0, 0, 0, 0, 0)}
	}
	vHeldReplies = append(vHeldReplies, h)
	if len(vHeldReplies) == vHeldWant {
		for len(vHeldReplies) > 0 {
			k := vChoice(len(vHeldReplies))
			r := vHeldReplies[k]
			vHeldReplies = append(vHeldReplies[:k], vHeldReplies[k+1:]...)
			r.ch <- result{typ: r.typ, data: r.data}
		}
	}
}

//verif:redirect (*github.com/pkg/sftp.clientConn).dispatchRequest vDeferDispatch
//verif:atomic-invisible
func vh_C03_readat_reply_orders_stub() {
	vHeldContent = vNondetArray(3)
	vHeldReplies, vHeldWant = nil, 3
	c := &Client{clientConn: clientConn{inflight: make(map[uint32]chan<- result), closed: make(chan struct{})}, ext: map[string]string{}, maxPacket: 1, maxConcurrentRequests: 2}
	f := &File{c: c, path: "/f", handle: "h"}
	b := make([]byte, 3)
	n, err := f.ReadAt(b, 0)
	vAssert(err == nil && n == 3, "every chunk gets the reply to its own request, whatever the reply order")
	vAssert(vBytesEq(b, vHeldContent), "the bytes land at their offsets")
}
