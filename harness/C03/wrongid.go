//go:build verif

package sftp

// the per-call id check: a well-formed reply of the expected type that
// carries another request's id must be rejected (reachable only if the
// transport's routing failed; under the engine the peer stub hands it over)
func vh_C03_wrong_id_rejected() {
	delta := vNondetU32()
	vAssume(delta != 0)
	vPeer = func(typ byte, body []byte) (fxp, []byte) {
		id := vBE32(body) + delta
		hdr := []byte{byte(id >> 24), byte(id >> 16), byte(id >> 8), byte(id)}
		switch typ {
		case sshFxpOpen, sshFxpOpendir:
			return sshFxpHandle, append(hdr, 0, 0, 0, 1, 'h')
		case sshFxpStat, sshFxpLstat, sshFxpFstat:
			return sshFxpAttrs, append(hdr, 0, 0, 0, 0)
		case sshFxpRead:
			return sshFxpData, append(hdr, 0, 0, 0, 1, 7)
		case sshFxpReaddir, sshFxpReadlink, sshFxpRealpath:
			return sshFxpName, append(hdr, 0, 0, 0, 1, 0, 0, 0, 1, 'n', 0, 0, 0, 1, 'l', 0, 0, 0, 0)
		}
		return sshFxpStatus, append(hdr, 0, 0, 0, 0, 0, 0, 0, 0, 0, 0, 0, 0)
	}
	c := vPeerClient()
	c.maxPacket, c.disableConcurrentReads = 4, true
	f := &File{c: c, path: "/f", handle: "h"}
	var err error
	switch vChoice(10) {
	case 0:
		_, err = c.Stat("/p")
	case 1:
		_, err = c.Lstat("/p")
	case 2:
		_, err = f.Stat()
	case 3:
		_, err = c.Open("/p")
	case 4:
		_, err = c.ReadDir("/p")
	case 5:
		_, err = c.ReadLink("/p")
	case 6:
		_, err = c.RealPath("p")
	case 7:
		_, err = f.ReadAt(make([]byte, 2), 0)
	case 8:
		err = c.Mkdir("/p")
	case 9:
		err = f.Close()
	}
	vAssert(err != nil, "a reply carrying another request's id is rejected")
}
