//go:build verif

package sftp

import "sync"

// vYieldBuf: every Write is a visible operation (a scheduling point), so that
// all interleavings of concurrent writers at Write granularity are explored.
type vYieldBuf struct {
	b      []byte
	writes int
}

func (w *vYieldBuf) Write(p []byte) (int, error) {
	vYield(2)
	w.b = append(w.b, p...)
	w.writes++
	return len(p), nil
}
func (w *vYieldBuf) Close() error { return nil }

// two goroutines send packets (one with a separate payload write) through the
// same conn: the byte stream must be a concatenation of whole frames.
//
// The packets are sent the way every client operation sends them (the real
// clientConn.dispatchRequest), or through conn.sendPacket as the servers'
// response path does.
//
//verif:noredirect (*github.com/pkg/sftp.clientConn).dispatchRequest
func vh_C03_framing() {
	w := &vYieldBuf{}
	cc := &clientConn{conn: conn{WriteCloser: w}, inflight: make(map[uint32]chan<- result), closed: make(chan struct{})}
	viaDispatch := vNondetBool()
	id1, id2 := vNondetU32(), vNondetU32()
	vAssume(id1 != id2)
	send := func(p idmarshaler) {
		if viaDispatch {
			cc.dispatchRequest(make(chan result, 1), p)
		} else {
			cc.conn.sendPacket(p)
		}
	}
	var wg sync.WaitGroup
	wg.Add(2)
	go func() {
		defer wg.Done()
		send(&sshFxpWritePacket{ID: id1, Handle: "h", Offset: 3, Length: 2, Data: []byte{7, 8}})
	}()
	go func() {
		defer wg.Done()
		send(&sshFxpReadPacket{ID: id2, Handle: "hh", Offset: 1, Len: 5})
	}()
	wg.Wait()
	b := w.b
	vAssert(w.writes == 3, "three writes (header+payload, header)")
	// parse two frames
	n1 := int(uint32(b[0])<<24 | uint32(b[1])<<16 | uint32(b[2])<<8 | uint32(b[3]))
	vAssert(4+n1 < len(b), "first frame complete")
	f1 := b[:4+n1]
	f2 := b[4+n1:]
	n2 := int(uint32(f2[0])<<24 | uint32(f2[1])<<16 | uint32(f2[2])<<8 | uint32(f2[3]))
	vAssert(4+n2 == len(f2), "second frame complete, nothing left over")
	var p1, p2 requestPacket
	var e1, e2 error
	p1, e1 = makePacket(rxPacket{fxp(f1[4]), f1[5:]})
	p2, e2 = makePacket(rxPacket{fxp(f2[4]), f2[5:]})
	vAssert(e1 == nil && e2 == nil, "both frames decode")
	wr, rd := p1, p2
	if _, ok := p1.(*sshFxpReadPacket); ok {
		wr, rd = p2, p1
	}
	wp, ok1 := wr.(*sshFxpWritePacket)
	rp, ok2 := rd.(*sshFxpReadPacket)
	vAssert(ok1 && ok2, "one WRITE and one READ arrive")
	vAssert(wp.ID == id1 && wp.Handle == "h" && wp.Offset == 3 && len(wp.Data) == 2 && wp.Data[0] == 7 && wp.Data[1] == 8, "WRITE arrives intact")
	vAssert(rp.ID == id2 && rp.Handle == "hh" && rp.Offset == 1 && rp.Len == 5, "READ arrives intact")
}
