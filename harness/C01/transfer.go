//go:build verif

package sftp

import (
	"io"
)

// ---- reads: sequential configuration (no goroutines) ----

func vh_C01_read_seq() {
	p := 1 + vChoice(3)
	size := vChoice(3*p + 2)
	content := vNondetArray(size)
	l := vChoice(3*p + 2)
	off := vChoice(size + 2)
	x := vNewXfer(content, vNondetBool(), vNondetBool(), p, 2, true, false)
	defer vPeerDone(x.c)
	b := make([]byte, l)
	var n int
	var err error
	if vNondetBool() {
		n, err = x.f.ReadAt(b, int64(off))
		vAssert(x.f.offset == 0, "ReadAt leaves the offset alone")
	} else {
		x.f.offset = int64(off)
		n, err = x.f.Read(b)
		vAssert(x.f.offset == int64(off+n), "Read advances the offset by the bytes read")
	}
	avail := size - off
	if avail < 0 {
		avail = 0
	}
	want := vMin(l, avail)
	vAssert(n == want, "count equals the bytes the file has at that offset")
	vAssert(vBytesEq(b[:n], content[vMin(off, size):vMin(off, size)+want]), "bytes read are the file's bytes at the offset")
	if l == 0 {
		vAssert(err == nil, "empty read succeeds")
	} else if want == l {
		vAssert(err == nil, "nil error means the whole request was transferred")
	} else {
		vAssert(err == io.EOF, "short read reports EOF")
	}
	vEmit("n", n)
}

func vh_C01_writeto_seq() {
	p := 1 + vChoice(3)
	size := vChoice(3*p + 2)
	content := vNondetArray(size)
	off := vChoice(size + 1)
	x := vNewXfer(content, vNondetBool(), vNondetBool(), p, 2, true, false)
	defer vPeerDone(x.c)
	x.f.offset = int64(off)
	w := &vBuf{}
	n, err := x.f.WriteTo(w)
	vAssert(err == nil, "WriteTo succeeds")
	vAssert(int(n) == size-off && vBytesEq(w.b, content[off:]), "WriteTo delivers exactly the rest of the file")
	vAssert(x.f.offset == int64(size), "offset ends at the end of the file")
	vEmit("n", n)
}

// ---- writes: sequential configuration ----

func vh_C01_write_seq() {
	p := 1 + vChoice(3)
	size := vChoice(p + 2)
	content := vNondetArray(size)
	l := vChoice(3*p + 2)
	off := vChoice(size + 2)
	b := vNondetArray(l)
	x := vNewXfer(content, vNondetBool(), vNondetBool(), p, 2, true, false)
	defer vPeerDone(x.c)
	var n int
	var err error
	if vNondetBool() {
		n, err = x.f.WriteAt(b, int64(off))
		vAssert(x.f.offset == 0, "WriteAt leaves the offset alone")
	} else {
		x.f.offset = int64(off)
		n, err = x.f.Write(b)
		vAssert(x.f.offset == int64(off+n), "Write advances the offset by the bytes written")
	}
	vAssert(err == nil && n == l, "whole buffer written")
	vCheckWritten(x, content, b, off)
	vEmit("n", n)
}

func vh_C01_readfrom_seq() {
	p := 1 + vChoice(3)
	size := vChoice(p + 2)
	content := vNondetArray(size)
	l := vChoice(3*p + 2)
	off := vChoice(size + 2)
	b := vNondetArray(l)
	x := vNewXfer(content, vNondetBool(), vNondetBool(), p, 2, true, false)
	defer vPeerDone(x.c)
	x.f.offset = int64(off)
	n, err := x.f.ReadFrom(&vPlainReader{vReader{data: b}})
	vAssert(err == nil && int(n) == l, "whole source consumed")
	vAssert(x.f.offset == int64(off+l), "offset advanced by the bytes written")
	vCheckWritten(x, content, b, off)
	vEmit("n", n)
}
