//go:build verif

package sftp

// the servers' READ handling: the data slice handed to the file / handler has
// length min(requested length, the server's configured maximum payload), for
// every maximum WithMaxTxPacket / WithRSMaxTxPacket admits, and what ReadAt
// delivered is returned unshortened
func vh_C01_server_read_clamp() {
	vErrKinds, vHErrKinds = 0, 0
	vEnvReset()
	vHReset()
	maxTx := vNondetU32()
	vAssume(maxTx >= 32768 && maxTx <= 1<<20)
	rlen := vNondetU32()
	vAssume(rlen <= 300000)
	want := rlen
	if want > maxTx {
		want = maxTx
	}
	// with the allocator a page bounds the buffer as well - above every packet
	// size a client can use (the largest DATA reply it accepts carries 262135
	// bytes; added after seeded change C01-e)
	var alloc *allocator
	if vNondetBool() {
		alloc = newAllocator()
	}
	pkt := &sshFxpReadPacket{ID: 7, Handle: "1", Offset: 0, Len: rlen}
	var got int64 = -1
	switch k := vChoice(3); k {
	case 0:
		svr := vNewServer(false, "")
		svr.maxTxPacket, svr.pktMgr.alloc = maxTx, alloc
		svr.openFiles["1"] = &vMFile{name: "/o", data: []byte{1, 2, 3}}
		_, _, err := vWorkerStep(svr, pkt)
		vAssert(err == nil, "worker continues")
		for _, c := range vEnvLog {
			if c.Op == "f.ReadAt" {
				got = c.N1
			}
		}
	default:
		rs := vNewRequestServer(Handlers{vH{}, vHOpenFile{}, vH{}, vH{}}, "/")
		rs.maxTxPacket, rs.pktMgr.alloc = maxTx, alloc
		vOpenRequestOfKind(rs, (k-1)*2) // reader handle, or read-writer handle
		_, err := vRSStep(rs, pkt)
		vAssert(err == nil, "worker continues")
		for _, c := range vHLog {
			if c.Op == "ReadAt" {
				got = c.N
			}
		}
	}
	if alloc == nil || rlen <= 262135 {
		vAssert(got == int64(want), "the read buffer has length min(requested, server maximum payload)")
	} else {
		page := int64(want)
		if page > maxMsgLength {
			page = maxMsgLength
		}
		vAssert(got == page, "above the largest packet a client can use, the page size bounds the buffer further")
	}
}
