//go:build verif

package sftp

// The options that set the two packet sizes keep the relation the property
// rests on ("the client's packet size does not exceed the server's maximum
// payload"): the checked client option admits exactly 1..32768, every server
// accepts at least 32768 and refuses to be configured below it, and each
// option stores exactly what it was given - or changes nothing.
func vh_C01_options() {
	c := &Client{maxPacket: 1 << 15, maxConcurrentRequests: 64}
	size := vNondetInt()
	switch vChoice(7) {
	case 0, 1:
		var err error
		if vNondetBool() {
			err = MaxPacketChecked(size)(c)
		} else {
			err = MaxPacket(size)(c)
		}
		if size >= 1 && size <= 32768 {
			vAssert(err == nil && c.maxPacket == size, "MaxPacket(Checked): sizes 1..32768 are accepted and stored")
		} else {
			vAssert(err != nil && c.maxPacket == 1<<15, "MaxPacket(Checked): anything else is refused, nothing changes")
		}
	case 2:
		err := MaxPacketUnchecked(size)(c)
		if size >= 1 {
			vAssert(err == nil && c.maxPacket == size, "MaxPacketUnchecked: positive sizes are accepted and stored")
		} else {
			vAssert(err != nil && c.maxPacket == 1<<15, "MaxPacketUnchecked: anything else is refused, nothing changes")
		}
	case 3:
		err := MaxConcurrentRequestsPerFile(size)(c)
		if size >= 1 {
			vAssert(err == nil && c.maxConcurrentRequests == size, "MaxConcurrentRequestsPerFile: positive values are accepted and stored")
		} else {
			vAssert(err != nil && c.maxConcurrentRequests == 64, "MaxConcurrentRequestsPerFile: anything else is refused")
		}
	case 4:
		v := vNondetBool()
		vAssert(UseConcurrentReads(v)(c) == nil && c.disableConcurrentReads == !v, "UseConcurrentReads")
		vAssert(UseConcurrentWrites(v)(c) == nil && c.useConcurrentWrites == v, "UseConcurrentWrites")
		vAssert(UseFstat(v)(c) == nil && c.useFstat == v, "UseFstat")
	case 5:
		s := &Server{maxTxPacket: defaultMaxTxPacket}
		u := vNondetU32()
		err := WithMaxTxPacket(u)(s)
		if u >= 32768 {
			vAssert(err == nil && s.maxTxPacket == u, "WithMaxTxPacket: at least 32768 is accepted and stored")
		} else {
			vAssert(err != nil && s.maxTxPacket == 32768, "WithMaxTxPacket: a server cannot be configured below the packet size every client may use")
		}
	case 6:
		rs := &RequestServer{maxTxPacket: defaultMaxTxPacket}
		u := vNondetU32()
		WithRSMaxTxPacket(u)(rs)
		if u >= 32768 {
			vAssert(rs.maxTxPacket == u, "WithRSMaxTxPacket: at least 32768 is accepted and stored")
		} else {
			vAssert(rs.maxTxPacket == 32768, "WithRSMaxTxPacket: a server cannot be configured below the packet size every client may use")
		}
	}
	vAssert(defaultMaxTxPacket == 32768, "the servers' default maximum payload is the largest checked client packet")
}
