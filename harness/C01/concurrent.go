//go:build verif

package sftp

import (
	"bytes"
	"io"
	"os"
)

//verif:atomic-invisible

// ---- the concurrent map/reduce paths: all goroutines are interpreted, the
// peer answers each request at once (reply orders are C13's subject) ----

// two chunks (three did not finish within the thorough budget: >200k paths per configuration)
func vLC() int { return 2 }

func vh_C01_readat_conc() {
	p := 1
	size := vChoice(vLC() + 2)
	content := vNondetArray(size)
	l := vLC() // longer than one packet, and than packet size x 1 worker
	off := vChoice(size + 2)
	x := vNewXfer(content, vThorough() && vNondetBool(), false, p, 1+vChoice(2), false, false)
	defer vPeerDone(x.c)
	b := make([]byte, l)
	n, err := x.f.ReadAt(b, int64(off))
	avail := size - off
	if avail < 0 {
		avail = 0
	}
	want := vMin(l, avail)
	vAssert(n == want, "count equals the bytes the file has at that offset")
	vAssert(vBytesEq(b[:vMin(n, l)], content[vMin(off, size):vMin(off, size)+vMin(n, want)]), "bytes read are the file's bytes at the offset")
	if want == l {
		vAssert(err == nil, "nil error means the whole request was transferred")
	} else {
		vAssert(err == io.EOF, "short read reports EOF")
	}
	vEmit("n", n)
}

// packet size 2: the last chunk of a read that runs into the end of the file
// can be a PARTIAL chunk (one byte, then EOF) - its bytes count (added after
// seeded change C01-f)
func vh_C01_readat_conc_partial() {
	p := 2
	size := 1 + vChoice(4)
	content := vNondetArray(size)
	l := 2 * p
	off := vChoice(2)
	x := vNewXfer(content, false, false, p, 2, false, false)
	defer vPeerDone(x.c)
	b := make([]byte, l)
	n, err := x.f.ReadAt(b, int64(off))
	avail := size - off
	want := vMin(l, avail)
	vAssert(n == want, "count equals the bytes the file has at that offset, a partial last chunk included")
	vAssert(vBytesEq(b[:vMin(n, l)], content[off:off+vMin(n, want)]), "bytes read are the file's bytes at the offset")
	if want == l {
		vAssert(err == nil, "nil error means the whole request was transferred")
	} else {
		vAssert(err == io.EOF, "short read reports EOF")
	}
	vEmit("n", n)
}

//verif:tier manual
func vh_C01_writeto_conc() {
	p := 1 + vChoice(2)
	size := p + 1 + vChoice(2*p+1) // larger than one packet: concurrent path
	content := vNondetArray(size)
	x := vNewXfer(content, vNondetBool(), false, p, 1+vChoice(2), false, false)
	defer vPeerDone(x.c)
	w := &vBuf{}
	n, err := x.f.WriteTo(w)
	vAssert(err == nil, "WriteTo succeeds")
	vAssert(int(n) == size && vBytesEq(w.b, content), "WriteTo delivers exactly the file")
	vAssert(x.f.offset == int64(size), "offset ends at the end of the file")
	vEmit("n", n)
}

func vh_C01_writeat_conc() {
	p := 1
	size := vChoice(2)
	content := vNondetArray(size)
	l := vLC()
	off := vChoice(size + 2)
	b := vNondetArray(l)
	x := vNewXfer(content, vNondetBool(), false, p, 1+vChoice(2), true, true)
	defer vPeerDone(x.c)
	n, err := x.f.WriteAt(b, int64(off))
	vAssert(err == nil && n == l, "whole buffer written")
	vCheckWritten(x, content, b, off)
	vEmit("n", n)
}

func vh_C01_readfrom_conc() {
	p := 1
	size := vChoice(2)
	content := vNondetArray(size)
	l := vChoice(vLC() + 1)
	off := vChoice(size + 2)
	b := vNondetArray(l)
	x := vNewXfer(content, vNondetBool(), false, p, 1+vChoice(2), true, true)
	defer vPeerDone(x.c)
	x.f.offset = int64(off)
	var n int64
	var err error
	switch vChoice(4) {
	case 0:
		n, err = x.f.ReadFromWithConcurrency(&vPlainReader{vReader{data: b}}, 2)
	case 1:
		n, err = x.f.ReadFrom(bytes.NewReader(b)) // Len()
	case 2:
		n, err = x.f.ReadFrom(&io.LimitedReader{R: &vPlainReader{vReader{data: b}}, N: int64(l)})
	case 3:
		n, err = x.f.ReadFrom(&vPlainReader{vReader{data: b}}) // no size known: sequential
	}
	vAssert(err == nil && int(n) == l, "whole source consumed")
	vAssert(x.f.offset == int64(off+l), "offset advanced by the bytes written")
	vCheckWritten(x, content, b, off)
	vEmit("n", n)
}

// every kind of source ReadFrom knows how to size up - Len(), Size(), Stat()
// (also failing), *io.LimitedReader - and sources whose announced size is wrong
// in either direction: the size only picks the degree of concurrency, the bytes
// written are always exactly the bytes the source delivers
type vSizedSrc struct {
	vReader
	n int64
}

func (s *vSizedSrc) Size() int64 { return s.n }

type vLenSrc struct {
	vReader
	n int
}

func (s *vLenSrc) Len() int { return s.n }

type vStatSrc struct {
	vReader
	n    int64
	fail bool
}

func (s *vStatSrc) Stat() (os.FileInfo, error) {
	if s.fail {
		return nil, os.ErrInvalid
	}
	return &vFI{name: "s", size: s.n}, nil
}

//verif:atomic-invisible
func vh_C01_readfrom_source_kinds() {
	p := 1
	content := vNondetArray(1)
	l := 2
	off := vChoice(2)
	b := vNondetArray(l)
	x := vNewXfer(content, vNondetBool(), false, p, 2, true, true)
	defer vPeerDone(x.c)
	x.f.offset = int64(off)
	announced := int64(vChoice(5)) - 1 // -1, 0, 1 (too small), 2 (right), 3 (too large)
	var n int64
	var err error
	switch vChoice(4) {
	case 0:
		n, err = x.f.ReadFrom(&vSizedSrc{vReader{data: b}, announced})
	case 1:
		n, err = x.f.ReadFrom(&vLenSrc{vReader{data: b}, int(announced)})
	case 2:
		n, err = x.f.ReadFrom(&vStatSrc{vReader{data: b}, announced, vNondetBool()})
	case 3:
		if announced < 0 {
			announced = 0
		}
		// a LimitedReader really limits: at most N bytes are the source
		n, err = x.f.ReadFrom(&io.LimitedReader{R: &vPlainReader{vReader{data: b}}, N: announced})
		if announced < int64(l) {
			l = int(announced)
			b = b[:l]
		}
	}
	vAssert(err == nil && int(n) == l, "whole source consumed")
	vAssert(x.f.offset == int64(off+l), "offset advanced by the bytes written")
	vCheckWritten(x, content, b, off)
	vEmit("n", n)
}

var vWTWorkers = 2

// the smallest concurrent WriteTo: two bytes, packet size 1, ONE worker; the
// slicer's run-ahead is bounded by dropping executions that iterate it more
// than four times (fair-scheduling bound)
//
//verif:unwind 3
//verif:prune-unwind
//verif:tier manual
func vh_C01_writeto_conc_min() {
	content := vNondetArray(2)
	x := vNewXfer(content, false, false, 1, vWTWorkers, false, false)
	defer vPeerDone(x.c)
	w := &vBuf{}
	n, err := x.f.WriteTo(w)
	vAssert(err == nil && n == 2 && vBytesEq(w.b, content), "WriteTo delivers exactly the file, in order")
	vAssert(x.f.offset == 2, "offset advanced")
}
