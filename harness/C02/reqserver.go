//go:build verif

package sftp

// one request of every kind through the real packetWorker of the request
// server: arbitrary handler flavours and outcomes, handle "1" of each kind
// (reader, writer, read-writer, lister) already open.
func vh_C02_reqserver_one_reply() {
	vErrKinds, vHErrKinds = 0, 2
	vTape = nil
	vEnvReset()
	vHReset()
	pkt := vSymRequest(vChoice(vNKinds))
	kn := vKindName(pkt)
	h := Handlers{FileGet: vH{}, FilePut: vH{}, FileCmd: vH{}, FileList: vH{}}
	if vNondetBool() {
		// every optional interface present (the per-interface mapping is C10's subject)
		h = Handlers{FileGet: vH{}, FilePut: vHOpenFile{}, FileCmd: vHCmdAll{}, FileList: vHListAll{}}
	}
	rs := vNewRequestServer(h, "/")
	hk := vChoice(4)
	vOpenRequestOfKind(rs, hk)
	hkn := [4]string{"reader", "writer", "read-writer", "lister"}[hk]
	r, err := vRSStep(rs, pkt)
	vAssert(err == nil, kn+": worker does not fail on a well-formed request")
	if err != nil {
		return
	}
	b := vRespBytes(r)
	vAssert(len(b) >= 5 && vLegalReply(pkt, b[4]), kn+" on "+hkn+" handle: reply type is legal for the request")
	if b[4] != sshFxpVersion {
		vAssert(vRespID(b) == pkt.id(), kn+": reply carries the request id")
	}
	// the next request can be served: whatever the outcome, the handle table is
	// not left locked (added after seeded change C02-f; a leaked lock shows up
	// as a deadlock here)
	rs.mu.Lock()
	rs.mu.Unlock()
	r2, err2 := vRSStep(rs, &sshFxpClosePacket{ID: pkt.id() + 1, Handle: "7"})
	vAssert(err2 == nil && vRespID(vRespBytes(r2)) == pkt.id()+1, "a following request is answered too")
	vEmit("typ", int(b[4]))
}
