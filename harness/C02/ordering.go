//go:build verif

package sftp

// three requests: all 6 completion orders x select interleavings (four did not finish within the thorough budget)
func vK() int { return 3 }

type vFakeReq struct{ id uint32 }

func (f *vFakeReq) id_() uint32                   { return f.id }
func (f *vFakeReq) UnmarshalBinary([]byte) error { return nil }

// The real controller goroutine (newPktMgr) receives k registered requests and
// their responses in an arbitrary completion order (every permutation), the
// two queues being consumed in any interleaving the select allows: the sender
// must see exactly the responses 1..k in arrival order, each once.
func vh_C02_ordering() {
	k := vK()
	cap := &vCapture{}
	pm := newPktMgr(cap)
	// request ids are the client's business: arbitrary, not necessarily distinct
	// (added after seeded change C02-e); the responses are told apart by their
	// status codes 2, 3, 4
	var reqs []orderedRequest
	ids := make([]uint32, k)
	codes := []error{ErrSSHFxNoSuchFile, ErrSSHFxPermissionDenied, ErrSSHFxFailure}
	for i := 0; i < k; i++ {
		ids[i] = vNondetU32()
		reqs = append(reqs, pm.newOrderedRequest(&sshFxpStatPacket{ID: ids[i], Path: "/"}))
	}
	// completion order: a permutation chosen by the environment
	used := make([]bool, k)
	var perm []int
	for len(perm) < k {
		c := vChoice(k - len(perm))
		for j := 0; j < k; j++ {
			if !used[j] {
				if c == 0 {
					used[j] = true
					perm = append(perm, j)
					break
				}
				c--
			}
		}
	}
	// registration happens in arrival order; a response can only exist after
	// its request was registered
	next := 0
	for _, j := range perm {
		for next <= j {
			pm.requests <- reqs[next]
			next++
		}
		pm.responses <- pm.newOrderedResponse(statusFromError(reqs[j].id(), codes[j]), reqs[j].orderID())
	}
	vQuiesce()
	vAssert(len(cap.pkts) == k, "every request answered exactly once")
	for i := 0; i < len(cap.pkts) && i < k; i++ {
		code, _ := vStatusCode(cap.pkts[i])
		vAssert(vRespID(cap.pkts[i]) == ids[i] && code == uint32(2+i), "responses leave in arrival order")
	}
	vAssert(len(pm.incoming) == 0 && len(pm.outgoing) == 0, "nothing left queued")
	close(pm.fini)
}

// End of session: the dispatcher calls packetManager.close() as soon as the
// workers are done; responses still queued for the controller at that moment
// must not be dropped.
func vh_C02_shutdown() {
	cap := &vCapture{}
	pm := newPktMgr(cap)
	r := pm.newOrderedRequest(&sshFxpStatPacket{ID: 7, Path: "/"})
	pm.incomingPacket(r)
	go func() {
		pm.readyPacket(pm.newOrderedResponse(statusFromError(7, nil), r.orderID()))
	}()
	pm.close()
	vQuiesce()
	vAssert(len(cap.pkts) == 1, "response queued before close() is still sent")
}
