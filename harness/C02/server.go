//go:build verif

package sftp

import "os"

// legal reply types per request (draft-ietf-secsh-filexfer-02 sections 6-7,
// OpenSSH PROTOCOL section 4)
func vLegalReply(pkt requestPacket, typ byte) bool {
	switch p := pkt.(type) {
	case *sshFxInitPacket:
		return typ == sshFxpVersion
	case *sshFxpOpenPacket, *sshFxpOpendirPacket:
		return typ == sshFxpHandle || typ == sshFxpStatus
	case *sshFxpReadPacket:
		return typ == sshFxpData || typ == sshFxpStatus
	case *sshFxpLstatPacket, *sshFxpStatPacket, *sshFxpFstatPacket:
		return typ == sshFxpAttrs || typ == sshFxpStatus
	case *sshFxpReaddirPacket, *sshFxpRealpathPacket, *sshFxpReadlinkPacket:
		return typ == sshFxpName || typ == sshFxpStatus
	case *sshFxpExtendedPacket:
		if _, ok := p.SpecificPacket.(*sshFxpExtendedPacketStatVFS); ok {
			return typ == sshFxpExtendedReply || typ == sshFxpStatus
		}
		return typ == sshFxpStatus
	}
	return typ == sshFxpStatus
}

// one request of every kind through the real worker of the os-backed server,
// arbitrary environment outcomes, read-only or not: exactly one response, with
// the request's order id and request id and a type legal for the request.
func vh_C02_server_one_reply() {
	vErrKinds = 3
	vTape = nil
	vEnvReset()
	pkt := vSymRequest(vChoice(vNKinds))
	kn := vKindName(pkt)
	svr := vNewServer(vNondetBool(), "")
	f := &vMFile{name: "/o", data: []byte{1, 2, 3}}
	if vNondetBool() {
		f.dir = true
		f.ents = []os.FileInfo{&vFI{name: "a", mode: 0o644}}
	}
	svr.openFiles["1"] = f
	svr.handleCount = 1
	r, _, err := vWorkerStep(svr, pkt)
	vAssert(err == nil, kn+": worker does not fail on a well-formed request")
	if err != nil {
		return
	}
	b := vRespBytes(r)
	vAssert(len(b) >= 5 && vLegalReply(pkt, b[4]), kn+": reply type is legal for the request")
	if b[4] != sshFxpVersion {
		vAssert(vRespID(b) == pkt.id(), kn+": reply carries the request id")
	}
	vAssert(r.id() == pkt.id(), kn+": response object carries the request id")
	vEmit("typ", int(b[4]))
}
