//go:build verif

package sftp

// From the byte stream to the responses: two requests marshalled by the
// client-side codec go through the real receive loop (Serve / serveLoop), the
// real worker and are answered: one response each, with its id, in order.

func vFrame(m interface{ MarshalBinary() ([]byte, error) }) []byte {
	b, err := m.MarshalBinary()
	vAssert(err == nil, "marshals")
	n := len(b) - 4
	b[0], b[1], b[2], b[3] = byte(n>>24), byte(n>>16), byte(n>>8), byte(n)
	return b
}

func vLoopRequest(id uint32) []byte {
	switch vChoice(6) {
	case 0:
		return vFrame(&sshFxpRealpathPacket{ID: id, Path: "p"})
	case 1:
		return vFrame(&sshFxpStatPacket{ID: id, Path: "/p"})
	case 2:
		return vFrame(&sshFxpFsyncPacket{ID: id, Handle: "1"}) // an extended request neither server knows
	case 3:
		return vFrame(&sshFxpStatvfsPacket{ID: id, Path: "/"})
	case 4:
		return vFrame(&sshFxpMkdirPacket{ID: id, Path: "/d"})
	default:
		return vFrame(&sshFxpReadPacket{ID: id, Handle: "9", Len: 1})
	}
}

func vCheckTwoReplies(resp [][]byte) {
	vAssert(len(resp) == 2, "every request is answered exactly once")
	if len(resp) == 2 {
		vAssert(vRespID(resp[0]) == 11 && vRespID(resp[1]) == 12, "answers carry the request ids, in arrival order")
	}
}

func vh_C02_reqserver_loop_to_reply() {
	vErrKinds, vHErrKinds = 0, 2
	vTape = nil
	vHReset()
	rs := vNewRequestServer(Handlers{vH{}, vH{}, vHCmdAll{}, vH{}}, "/")
	stream := append(vLoopRequest(11), vLoopRequest(12)...)
	rs.serverConn.conn.Reader = &vReader{data: stream}
	ch := make(chan orderedRequest, 8)
	rs.serveLoop(ch) // closes ch at the end of the stream
	var resp [][]byte
	for p := range ch {
		rs.pktMgr.incomingPacket(p)
		one := make(chan orderedRequest, 1)
		one <- p
		close(one)
		vAssert(rs.packetWorker(vContextBackground(), one) == nil, "worker continues")
		for len(rs.pktMgr.responses) > 0 {
			r := <-rs.pktMgr.responses
			<-rs.pktMgr.requests
			resp = append(resp, vRespBytes(r.(orderedResponse).responsePacket))
		}
	}
	vCheckTwoReplies(resp)
}

//verif:redirect (*github.com/pkg/sftp.packetManager).workerChan vStubWorkerChan2
func vh_C02_server_loop_to_reply() {
	vErrKinds = 2
	vTape = nil
	vEnvReset()
	svr := vNewServer(false, "")
	stream := append(vLoopRequest(11), vLoopRequest(12)...)
	svr.serverConn.conn.Reader = &vReader{data: stream}
	svr.Serve()
	var resp [][]byte
	n := len(vDispatched2)
	for i := 0; i < n; i++ {
		p := <-vDispatched2
		svr.pktMgr.incomingPacket(p)
		one := make(chan orderedRequest, 1)
		one <- p
		close(one)
		vAssert(svr.sftpServerWorker(one) == nil, "worker continues")
		for len(svr.pktMgr.responses) > 0 {
			r := <-svr.pktMgr.responses
			<-svr.pktMgr.requests
			resp = append(resp, vRespBytes(r.(orderedResponse).responsePacket))
		}
	}
	vCheckTwoReplies(resp)
}

var vDispatched2 chan orderedRequest

func vStubWorkerChan2(s *packetManager, runWorker func(chan orderedRequest)) chan orderedRequest {
	vDispatched2 = make(chan orderedRequest, 16)
	return vDispatched2
}
